#!/bin/sh
# confirm a round-5 deliverable (bug slipped into a refactoring): /tmp/wt/<name>-out/{patch,demo}.diff, /tmp/wt/<name>-base.diff
name=$1
out=/tmp/wt/$name-out; wt=/tmp/c5$$-repo; tgt=/tmp/wt/$name-target
git -C /repo worktree add -q --detach $wt HEAD || exit 1
cd $wt
echo "--- suite with refactoring + bug"
git apply $out/patch.diff || echo "PATCH DOES NOT APPLY"
CARGO_TARGET_DIR=$tgt cargo test --offline 2>&1 | grep -E "^test result|error(\[|:)" | head -3
echo "--- with the demonstration"
git apply $out/demo.diff || echo "DEMO DOES NOT APPLY"
CARGO_TARGET_DIR=$tgt cargo test --offline 2>&1 | grep -E "^test result|error(\[|:)" | head -3
echo "--- refactoring alone + demonstration"
git checkout -q -- . ; git clean -fdq
git apply /tmp/wt/$name-base.diff && git apply $out/demo.diff || echo "BASE+DEMO DOES NOT APPLY"
CARGO_TARGET_DIR=$tgt cargo test --offline 2>&1 | grep -E "^test result|error(\[|:)" | head -3
cd /; git -C /repo worktree remove --force $wt
