#!/usr/bin/env python3
"""Systematic small mutations of the emulator source as a breadth test of the monitors.
For each mutant: apply one operator at one random site of non-test code, keep it only if the crate
still compiles and the repository's own 226 tests still pass (otherwise the tests already decide it),
then run the quick checks that cover the mutated file (mutant.sh, scratch copies only).
usage: mutate.py <count> [-j N] [--seed S] [--files regex]      log lines: SURVIVED / KILLED / SKIPPED"""
import os, random, re, subprocess, sys, json, concurrent.futures as cf, shutil

args = sys.argv[1:]
count = int(args[0]); jobs = 3; seed = 1; fre = ".*"
if "-j" in args: jobs = int(args[args.index("-j") + 1])
if "--seed" in args: seed = int(args[args.index("--seed") + 1])
if "--files" in args: fre = args[args.index("--files") + 1]
REPO = "/repo"
ALLI = ["C01", "C02", "C03", "C04", "C05", "C06", "C07", "C08", "C20"]

def checks_for(path):
    r = _checks_for(path)
    return r if "C15" in r else r + ["C15"]

def _checks_for(path):
    p = path
    if "instruction/" in p or "addressing_mode" in p:
        extra = []
        if "trapa" in p: extra = ["C14", "C06", "C13"]
        if any(x in p for x in ("rte", "rts", "jsr", "bsr", "jmp", "bcc")): extra = ["C10", "C13"]
        return ALLI + extra
    if p.endswith("cpu.rs"): return ALLI + ["C13", "C15", "C19", "C10", "C18"]
    if "interrupt_controller" in p: return ["C06", "C10", "C13", "C14"]
    if "messages" in p: return ["C18", "C13", "C14", "C16"]
    if "timer8" in p or p.endswith("modules.rs"): return ["C17", "C13", "C09", "C15"]
    if "ioport" in p: return ["C16", "C18", "C13"]
    if p.endswith("bus.rs") or p.endswith("memory.rs"): return ["C09", "C19", "C01", "C08", "C16", "C20", "C05"]
    if "elf" in p: return ["C11", "C12", "C13"]
    if "socket" in p: return ["C18"]
    if "registers" in p: return ["C19", "C20", "C16", "C17"]
    return ["C13", "C18"]

OPS = [
    (r"wrapping_add", "wrapping_sub"), (r"wrapping_sub", "wrapping_add"),
    (r" \+ ", " - "), (r" - ", " + "), (r"<<", ">>"), (r">>", "<<"),
    (r" & ", " | "), (r" \| ", " & "), (r" \^ ", " | "),
    (r"==", "!="), (r"!=", "=="), (r" < ", " <= "), (r" <= ", " < "), (r" > ", " >= "), (r" >= ", " > "),
    (r"\btrue\b", "false"), (r"\bfalse\b", "true"), (r"&&", "||"), (r"\|\|", "&&"),
    (r"\+= ", "-= "), (r"\|= ", "&= "), (r"&= ", "|= "),
]

def sites(rng):
    out = []
    for root, _, files in os.walk(os.path.join(REPO, "src")):
        for f in files:
            if not f.endswith(".rs") or f in ("verif_hooks.rs", "testhelper.rs", "main.rs"): continue
            path = os.path.join(root, f)
            rel = os.path.relpath(path, REPO)
            if not re.search(fre, rel): continue
            lines = open(path).read().split("\n")
            for i, l in enumerate(lines):
                if "#[cfg(test)]" in l: break
                s = l.strip()
                if not s or s.startswith("//") or s.startswith("#[") or "log::" in s or "bail!" in s or "print" in s or "format!" in s or "context(" in s or s.startswith("use ") or "cfg(" in s:
                    continue
                for k, (pat, rep) in enumerate(OPS):
                    for m in re.finditer(pat, l):
                        # not inside a string literal (crude) and not a generic bracket / arrow
                        if l[:m.start()].count('"') % 2 == 1: continue
                        if pat in (r" < ", r" > ", r"<<", r">>") and ("->" in l[max(0, m.start() - 2):m.end() + 1] or "Vec<" in l or "Option<" in l or "Result<" in l): continue
                        out.append((rel, i, m.start(), m.end(), rep, "op%d" % k))
                # literal tweak
                for m in re.finditer(r"\b0x[0-9a-fA-F_]+\b|\b\d+\b", l):
                    if l[:m.start()].count('"') % 2 == 1: continue
                    tok = m.group(0).replace("_", "")
                    try: v = int(tok, 0)
                    except ValueError: continue
                    if v > 0xffffffff: continue
                    nv = v ^ 1 if tok.startswith("0x") else v + 1
                    rep = ("0x%x" % nv) if tok.startswith("0x") else str(nv)
                    out.append((rel, i, m.start(), m.end(), rep, "lit"))
                # statement deletion
                if s.endswith(";") and ("self." in s or "+=" in s or "= " in s) and not s.startswith("let ") and not s.startswith("return") and "?" not in s:
                    out.append((rel, i, 0, len(l), "", "del"))
    rng.shuffle(out)
    return out

def run_one(job):
    k, (rel, i, a, b, rep, kind) = job
    wt = "/tmp/mu/w%d" % k
    tgt = "/tmp/mu/target%d" % (k % jobs)
    subprocess.run(["git", "-C", REPO, "worktree", "add", "-q", "--detach", wt, "HEAD"], check=False)
    try:
        path = os.path.join(wt, rel)
        lines = open(path).read().split("\n")
        old = lines[i]
        lines[i] = old[:a] + rep + old[b:]
        open(path, "w").write("\n".join(lines))
        desc = "%s:%d [%s] %r -> %r" % (rel, i + 1, kind, old.strip()[:90], lines[i].strip()[:90])
        r = subprocess.run(["cargo", "test", "--offline"], cwd=wt, env=dict(os.environ, CARGO_TARGET_DIR=tgt), capture_output=True, text=True)
        out = r.stdout + r.stderr
        if "226 passed; 0 failed" not in out:
            why = "does not compile" if "error" in out and "test result" not in out else "killed by the repository's tests"
            return "SKIPPED %s (%s)" % (desc, why)
        patch = "/tmp/mu/m%d.diff" % k
        open(patch, "w").write(subprocess.run(["git", "diff"], cwd=wt, capture_output=True, text=True).stdout)
        checks = checks_for(rel)
        r = subprocess.run(["/verif/mutant.sh", patch] + checks, capture_output=True, text=True, cwd="/tmp")
        o = r.stdout + r.stderr
        verdicts = re.findall(r"verdict: (\w+)", o)
        new = [l.strip()[:140] for l in o.splitlines() if l.strip().startswith("NEW")]
        if "violated" in verdicts:
            return "KILLED %s :: %s" % (desc, new[0] if new else "")
        return "SURVIVED %s :: checks %s verdicts %s  patch %s" % (desc, " ".join(checks), ",".join(verdicts), patch)
    finally:
        subprocess.run(["git", "-C", REPO, "worktree", "remove", "--force", wt], check=False)

os.makedirs("/tmp/mu", exist_ok=True)
rng = random.Random(seed)
allsites = sites(rng)
print("# %d candidate sites, taking %d (seed %d)" % (len(allsites), count, seed), flush=True)
jobs_list = list(enumerate(allsites[:count]))
with cf.ThreadPoolExecutor(jobs) as ex:
    for line in ex.map(run_one, jobs_list):
        print(line, flush=True)
