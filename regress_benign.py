#!/usr/bin/env python3
"""Run all twenty quick checks against every stored benign change; anything but 'held' is a false alarm
(or a harness build problem).  usage: regress_benign.py [-j N] [pattern]"""
import glob, os, subprocess, sys, concurrent.futures as cf
args=sys.argv[1:]; jobs=2
if "-j" in args:
    i=args.index("-j"); jobs=int(args[i+1]); del args[i:i+2]
pat=args[0] if args else ""
ids=["C%02d"%i for i in range(1,21)]
dirs=sorted(d for d in glob.glob("/verif/seeded/benign/*") if pat in d)
def run(d):
    r=subprocess.run(["/verif/mutant.sh", os.path.join(d,"patch.diff")]+ids, capture_output=True, text=True, cwd="/tmp")
    out=r.stdout+r.stderr
    verdicts=[l.strip() for l in out.splitlines() if l.strip().startswith("verdict:")]
    bad=[l.strip()[:200] for l in out.splitlines() if l.strip().startswith("NEW") or "INCONCLUSIVE" in l or l.startswith("error")]
    ok=len(verdicts)==20 and all(v=="verdict: held" for v in verdicts)
    return d, ok, verdicts, bad
with cf.ThreadPoolExecutor(jobs) as ex:
    for d,ok,verdicts,bad in ex.map(run, dirs):
        print(("SILENT " if ok else "ALARM  ")+os.path.basename(d), len(verdicts), bad[:3], flush=True)
