//! PRNG, coverage cells, findings, report writer, panic recorder.

use std::cell::RefCell;
use std::collections::{BTreeMap, HashSet};
use std::fmt::Write as _;

// ---------------------------------------------------------------------------------------------
// PRNG (splitmix64 seeding + xorshift64*), fully determined by VERIF_SEED, check id and shard

#[derive(Clone)]
pub struct Rng(pub u64);
impl Rng {
    pub fn new(seed: u64) -> Rng {
        let mut z = seed.wrapping_add(0x9e3779b97f4a7c15);
        z = (z ^ (z >> 30)).wrapping_mul(0xbf58476d1ce4e5b9);
        z = (z ^ (z >> 27)).wrapping_mul(0x94d049bb133111eb);
        z ^= z >> 31;
        Rng(if z == 0 { 0x1234_5678_9abc_def1 } else { z })
    }
    pub fn derive(seed: u64, tag: &str, shard: u64) -> Rng {
        let mut h = seed ^ 0xcbf29ce484222325;
        for b in tag.bytes() {
            h = (h ^ b as u64).wrapping_mul(0x100000001b3);
        }
        Rng::new(h ^ shard.wrapping_mul(0x9e3779b97f4a7c15))
    }
    #[inline]
    pub fn next(&mut self) -> u64 {
        let mut x = self.0;
        x ^= x >> 12;
        x ^= x << 25;
        x ^= x >> 27;
        self.0 = x;
        x.wrapping_mul(0x2545f4914f6cdd1d)
    }
    #[inline]
    pub fn u32(&mut self) -> u32 {
        (self.next() >> 32) as u32
    }
    #[inline]
    pub fn u8(&mut self) -> u8 {
        (self.next() >> 56) as u8
    }
    #[inline]
    pub fn u16(&mut self) -> u16 {
        (self.next() >> 48) as u16
    }
    /// uniform in 0..n (n > 0)
    #[inline]
    pub fn below(&mut self, n: u64) -> u64 {
        ((self.next() >> 11) as u128 * n as u128 >> 53) as u64
    }
    pub fn range(&mut self, lo: u64, hi_incl: u64) -> u64 {
        lo + self.below(hi_incl - lo + 1)
    }
    pub fn chance(&mut self, num: u64, den: u64) -> bool {
        self.below(den) < num
    }
    pub fn pick<'a, T>(&mut self, v: &'a [T]) -> &'a T {
        &v[self.below(v.len() as u64) as usize]
    }
}

pub fn hash64(parts: &[u64]) -> u64 {
    let mut h: u64 = 0xcbf29ce484222325;
    for p in parts {
        for i in 0..8 {
            h = (h ^ ((p >> (8 * i)) & 0xff)).wrapping_mul(0x100000001b3);
        }
    }
    h
}
pub fn hash_str(s: &str) -> u64 {
    let mut h: u64 = 0xcbf29ce484222325;
    for b in s.bytes() {
        h = (h ^ b as u64).wrapping_mul(0x100000001b3);
    }
    h
}

// ---------------------------------------------------------------------------------------------
// JSON helpers (writer only)

pub fn jesc(s: &str) -> String {
    let mut o = String::with_capacity(s.len() + 2);
    o.push('"');
    for c in s.chars() {
        match c {
            '"' => o.push_str("\\\""),
            '\\' => o.push_str("\\\\"),
            '\n' => o.push_str("\\n"),
            '\r' => o.push_str("\\r"),
            '\t' => o.push_str("\\t"),
            c if (c as u32) < 0x20 => {
                let _ = write!(o, "\\u{:04x}", c as u32);
            }
            c => o.push(c),
        }
    }
    o.push('"');
    o
}

// ---------------------------------------------------------------------------------------------
// Report: what one shard of one check observed

#[derive(Clone, Debug)]
pub struct Finding {
    /// "<form or scenario>|<aspect>" — the property id is added by the driver
    pub sig: String,
    pub detail: String,
    /// replay line(s) for `h8mon replay`
    pub replay: String,
    pub count: u64,
}

pub struct Report {
    pub prop: String,
    pub evaluations: u64,
    pub cells: HashSet<u64>,
    pub cell_kinds: BTreeMap<String, HashSet<u64>>,
    pub samples: Vec<String>,
    pub findings: BTreeMap<String, Finding>,
    pub counters: BTreeMap<String, u64>,
    pub exhaustive: Vec<String>,
    pub notes: Vec<String>,
    pub inconclusive: Vec<String>,
    pub max_samples: usize,
}

impl Report {
    pub fn new(prop: &str) -> Report {
        Report {
            prop: prop.to_string(),
            evaluations: 0,
            cells: HashSet::new(),
            cell_kinds: BTreeMap::new(),
            samples: vec![],
            findings: BTreeMap::new(),
            counters: BTreeMap::new(),
            exhaustive: vec![],
            notes: vec![],
            inconclusive: vec![],
            max_samples: 6,
        }
    }
    pub fn cell(&mut self, kind: &str, parts: &[u64]) {
        let h = hash64(&[hash_str(kind), hash64(parts)]);
        self.cells.insert(h);
        if let Some(s) = self.cell_kinds.get_mut(kind) {
            s.insert(h);
        } else {
            let mut s = HashSet::new();
            s.insert(h);
            self.cell_kinds.insert(kind.to_string(), s);
        }
    }
    pub fn count(&mut self, key: &str, n: u64) {
        *self.counters.entry(key.to_string()).or_insert(0) += n;
    }
    pub fn sample(&mut self, s: impl FnOnce() -> String) {
        if self.samples.len() < self.max_samples {
            self.samples.push(s());
        }
    }
    pub fn finding(&mut self, sig: &str, detail: impl FnOnce() -> String, replay: impl FnOnce() -> String) {
        if let Some(f) = self.findings.get_mut(sig) {
            f.count += 1;
        } else {
            self.findings.insert(sig.to_string(), Finding { sig: sig.to_string(), detail: detail(), replay: replay(), count: 1 });
        }
    }
    pub fn to_json(&self) -> String {
        let mut o = String::new();
        o.push_str("{\n");
        let _ = write!(o, " \"prop\": {},\n \"evaluations\": {},\n", jesc(&self.prop), self.evaluations);
        o.push_str(" \"cells\": [");
        let mut first = true;
        for c in &self.cells {
            if !first {
                o.push(',');
            }
            first = false;
            let _ = write!(o, "\"{:x}\"", c);
        }
        o.push_str("],\n \"cell_kinds\": {");
        first = true;
        for (k, v) in &self.cell_kinds {
            if !first {
                o.push(',');
            }
            first = false;
            let _ = write!(o, "{}: {}", jesc(k), v.len());
        }
        // per-kind hash lists so that the driver can take exact unions across shards
        o.push_str("},\n \"cells_by_kind\": {");
        first = true;
        for (k, v) in &self.cell_kinds {
            if !first {
                o.push(',');
            }
            first = false;
            let _ = write!(o, "{}: [", jesc(k));
            let mut f2 = true;
            for c in v {
                if !f2 {
                    o.push(',');
                }
                f2 = false;
                let _ = write!(o, "\"{:x}\"", c);
            }
            o.push(']');
        }
        o.push_str("},\n \"samples\": [");
        first = true;
        for s in &self.samples {
            if !first {
                o.push(',');
            }
            first = false;
            o.push_str(&jesc(s));
        }
        o.push_str("],\n \"findings\": [");
        first = true;
        for f in self.findings.values() {
            if !first {
                o.push(',');
            }
            first = false;
            let _ = write!(
                o,
                "\n  {{\"sig\": {}, \"detail\": {}, \"replay\": {}, \"count\": {}}}",
                jesc(&f.sig),
                jesc(&f.detail),
                jesc(&f.replay),
                f.count
            );
        }
        o.push_str("],\n \"counters\": {");
        first = true;
        for (k, v) in &self.counters {
            if !first {
                o.push(',');
            }
            first = false;
            let _ = write!(o, "{}: {}", jesc(k), v);
        }
        o.push_str("},\n");
        let list = |v: &Vec<String>| v.iter().map(|s| jesc(s)).collect::<Vec<_>>().join(",");
        let _ = write!(o, " \"exhaustive\": [{}],\n \"notes\": [{}],\n \"inconclusive\": [{}]\n}}\n", list(&self.exhaustive), list(&self.notes), list(&self.inconclusive));
        o
    }
}

// ---------------------------------------------------------------------------------------------
// panic recorder

#[derive(Clone, Debug, Default)]
pub struct PanicInfo {
    pub file: String,
    pub line: u32,
    pub msg: String,
}

thread_local! {
    static LAST_PANIC: RefCell<Option<PanicInfo>> = RefCell::new(None);
}

pub fn install_panic_hook() {
    std::panic::set_hook(Box::new(|info| {
        let (file, line) = info.location().map(|l| (l.file().to_string(), l.line())).unwrap_or_default();
        let msg = if let Some(s) = info.payload().downcast_ref::<&str>() {
            s.to_string()
        } else if let Some(s) = info.payload().downcast_ref::<String>() {
            s.clone()
        } else {
            "<non-string panic>".to_string()
        };
        if std::env::var("H8MON_PANIC_TRACE").is_ok() {
            eprintln!("[panic] {}:{}: {}", file, line, msg);
        }
        LAST_PANIC.with(|p| *p.borrow_mut() = Some(PanicInfo { file, line, msg }));
    }));
}

pub fn take_panic() -> Option<PanicInfo> {
    LAST_PANIC.with(|p| p.borrow_mut().take())
}

/// Signature of a panic that does not move under unrelated edits:
/// file (relative to the repository) + enclosing fn (recovered from the source) + message class.
pub fn panic_sig(p: &PanicInfo) -> String {
    // path relative to the repository whatever the include path looks like
    let file = match p.file.rfind("/repo_src/") {
        Some(i) => format!("src/{}", &p.file[i + 10..]),
        None => p.file.strip_prefix("/repo/").unwrap_or(&p.file).to_string(),
    };
    let func = enclosing_fn(&p.file, p.line).unwrap_or_else(|| "?".to_string());
    format!("panic@{}::{}:{}", file, func, msg_class(&p.msg))
}

pub fn msg_class(msg: &str) -> String {
    // keep the generic part of the message: cut at the first ':' and drop digits
    let head = msg.split(": ").next().unwrap_or("");
    let mut s: String = head.chars().filter(|c| !c.is_ascii_digit()).collect();
    s = s.replace("  ", " ");
    let s = s.trim();
    let s = if s.len() > 60 { &s[..60] } else { s };
    s.replace('|', "/").replace(' ', "-").replace('`', "")
}

fn enclosing_fn(file: &str, line: u32) -> Option<String> {
    // rustc reports the path relative to the crate directory when the include path is relative
    let path = if file.starts_with('/') { file.to_string() } else { format!("{}/{}", env!("CARGO_MANIFEST_DIR"), file) };
    let src = std::fs::read_to_string(&path).ok()?;
    let lines: Vec<&str> = src.lines().collect();
    let mut i = (line as usize).min(lines.len());
    while i > 0 {
        i -= 1;
        let l = lines[i];
        if let Some(p) = l.find("fn ") {
            // must look like a definition: preceded by start / pub / whitespace
            let before = &l[..p];
            if before.trim().is_empty() || before.trim_end().ends_with("pub") || before.contains("pub(") || before.trim_end().ends_with("async") {
                let rest = &l[p + 3..];
                let name: String = rest.chars().take_while(|c| c.is_alphanumeric() || *c == '_').collect();
                if !name.is_empty() {
                    return Some(name);
                }
            }
        }
    }
    None
}

// ---------------------------------------------------------------------------------------------
// run configuration shared by all checks

#[derive(Clone, Debug)]
pub struct Cfg {
    pub tier_thorough: bool,
    pub seed: u64,
    pub shard: u64,
    pub nshards: u64,
    pub profile: String,
    /// scale factor for workload sizes (testing aid)
    pub scale: f64,
}
impl Cfg {
    pub fn rng(&self, tag: &str) -> Rng {
        Rng::derive(self.seed, tag, self.shard)
    }
    /// is work item `i` mine?
    #[inline]
    pub fn mine(&self, i: u64) -> bool {
        i % self.nshards == self.shard
    }
    pub fn n(&self, quick: u64, thorough: u64) -> u64 {
        let v = if self.tier_thorough { thorough } else { quick };
        ((v as f64 * self.scale) as u64).max(1)
    }
    /// per-shard share of a total count
    pub fn share(&self, total: u64) -> u64 {
        (total + self.nshards - 1) / self.nshards
    }
}


// ---------------------------------------------------------------------------------------------
// Source dictionary: every integer literal that occurs in the emulator's source (the tree the
// harness was built from). Values a program compares against or masks with are the places where
// behaviour can change; random and boundary pools cannot find a 32-bit constant by chance, the
// source names it. Used as an extra value pool (operands, register contents, addresses).

static DICT: std::sync::OnceLock<Vec<u32>> = std::sync::OnceLock::new();

fn scan_literals(text: &str, out: &mut HashSet<u32>) {
    let b = text.as_bytes();
    let mut i = 0;
    while i < b.len() {
        let c = b[i];
        if c.is_ascii_digit() && (i == 0 || !(b[i - 1].is_ascii_alphanumeric() || b[i - 1] == b'_')) {
            let (radix, mut j) = if c == b'0' && i + 1 < b.len() && (b[i + 1] | 0x20) == b'x' {
                (16, i + 2)
            } else if c == b'0' && i + 1 < b.len() && (b[i + 1] | 0x20) == b'b' {
                (2, i + 2)
            } else if c == b'0' && i + 1 < b.len() && (b[i + 1] | 0x20) == b'o' {
                (8, i + 2)
            } else {
                (10, i)
            };
            let mut v: u128 = 0;
            let mut digits = 0;
            while j < b.len() {
                let d = match b[j] {
                    b'_' => {
                        j += 1;
                        continue;
                    }
                    x @ b'0'..=b'9' => (x - b'0') as u32,
                    x @ b'a'..=b'f' if radix == 16 => (x - b'a' + 10) as u32,
                    x @ b'A'..=b'F' if radix == 16 => (x - b'A' + 10) as u32,
                    _ => break,
                };
                if d >= radix {
                    break;
                }
                v = v.saturating_mul(radix as u128).saturating_add(d as u128);
                digits += 1;
                j += 1;
            }
            if digits > 0 && v <= u64::MAX as u128 {
                // the value, its low 32 / 24 / 16 bits
                let v = v as u64;
                for x in [v as u32, (v >> 32) as u32, (v as u32) & 0xff_ffff, (v as u32) & 0xffff] {
                    if x > 0xff {
                        out.insert(x);
                    }
                }
            }
            i = j.max(i + 1);
        } else {
            i += 1;
        }
    }
}

pub fn source_dictionary() -> &'static Vec<u32> {
    DICT.get_or_init(|| {
        let root = std::env::var("VERIF_REPO").unwrap_or_else(|_| "/repo".to_string());
        let mut set: HashSet<u32> = HashSet::new();
        let mut stack = vec![std::path::PathBuf::from(format!("{}/src", root))];
        while let Some(dir) = stack.pop() {
            let Ok(rd) = std::fs::read_dir(&dir) else { continue };
            for e in rd.flatten() {
                let p = e.path();
                if p.is_dir() {
                    stack.push(p);
                } else if p.extension().map(|x| x == "rs").unwrap_or(false) {
                    if let Ok(t) = std::fs::read_to_string(&p) {
                        scan_literals(&t, &mut set);
                    }
                }
            }
        }
        let mut v: Vec<u32> = set.into_iter().collect();
        v.sort_unstable();
        v
    })
}

/// one dictionary value (or a neighbour of one); None if the dictionary is empty
pub fn dict_value(rng: &mut Rng) -> Option<u32> {
    let d = source_dictionary();
    if d.is_empty() {
        return None;
    }
    let v = d[rng.below(d.len() as u64) as usize];
    Some(match rng.below(6) {
        0 => v.wrapping_add(1),
        1 => v.wrapping_sub(1),
        _ => v,
    })
}
