//! Workload generation: the table of implemented instruction forms (DESIGN.md Appendix A.1 in
//! nibble-pattern notation), a pattern filler, data / address pools and helpers that place
//! operands so that a chosen effective address is hit.

use crate::mon::Case;
use crate::refmodel::decode::{decode, Class, Insn, Opd, Sz};
use crate::refmodel::exec::sext;
use crate::refmodel::mem::{DRAM_HI, DRAM_LO, RAM_HI, RAM_LO};
use crate::util::Rng;

#[derive(Clone, Copy, PartialEq, Eq, Debug, Hash)]
pub enum Group {
    Mov,
    Arith,
    Logic,
    Bit,
    Flow,
    Stc,
}

/// Pattern notation: upper-case hex digit = fixed nibble; fields are lower case: s,d = 4-bit
/// register field; m,n = 0sss / 0ddd; x = 1rrr; i = immediate; a = absolute address;
/// p = displacement; b = 0bbb; q = 1bbb; c = condition; t = trap number 1..3.
pub const FORMS: &[(Group, &str)] = &[
    // ---- MOV.B
    (Group::Mov, "Fdii"),
    (Group::Mov, "0Csd"),
    (Group::Mov, "68md"),
    (Group::Mov, "68xs"),
    (Group::Mov, "6Emd pppp"),
    (Group::Mov, "6Exs pppp"),
    (Group::Mov, "78m0 6A2d 00pp pppp"),
    (Group::Mov, "78n0 6AAs 00pp pppp"),
    (Group::Mov, "6Cmd"),
    (Group::Mov, "6Cxs"),
    (Group::Mov, "2daa"),
    (Group::Mov, "3saa"),
    (Group::Mov, "6A0d aaaa"),
    (Group::Mov, "6A2d 00aa aaaa"),
    (Group::Mov, "6A8s aaaa"),
    (Group::Mov, "6AAs 00aa aaaa"),
    // ---- MOV.W
    (Group::Mov, "790d iiii"),
    (Group::Mov, "0Dsd"),
    (Group::Mov, "69md"),
    (Group::Mov, "69xs"),
    (Group::Mov, "6Fmd pppp"),
    (Group::Mov, "6Fxs pppp"),
    (Group::Mov, "78m0 6B2d 00pp pppp"),
    (Group::Mov, "78n0 6BAs 00pp pppp"),
    (Group::Mov, "6Dmd"),
    (Group::Mov, "6Dxs"),
    (Group::Mov, "6B0d aaaa"),
    (Group::Mov, "6B2d 00aa aaaa"),
    (Group::Mov, "6B8s aaaa"),
    (Group::Mov, "6BAs 00aa aaaa"),
    // ---- MOV.L
    (Group::Mov, "7A0n iiii iiii"),
    (Group::Mov, "0Fxn"),
    (Group::Mov, "0100 69mn"),
    (Group::Mov, "0100 69xm"),
    (Group::Mov, "0100 6Fmn pppp"),
    (Group::Mov, "0100 6Fxm pppp"),
    (Group::Mov, "0100 78m0 6B2n 00pp pppp"),
    (Group::Mov, "0100 78x0 6BAm 00pp pppp"),
    (Group::Mov, "0100 6Dmn"),
    (Group::Mov, "0100 6Dxm"),
    (Group::Mov, "0100 6B0n aaaa"),
    (Group::Mov, "0100 6B2n 00aa aaaa"),
    (Group::Mov, "0100 6B8m aaaa"),
    (Group::Mov, "0100 6BAm 00aa aaaa"),
    // ---- arithmetic
    (Group::Arith, "8dii"),
    (Group::Arith, "08sd"),
    (Group::Arith, "791d iiii"),
    (Group::Arith, "09sd"),
    (Group::Arith, "7A1n iiii iiii"),
    (Group::Arith, "0Axn"),
    (Group::Arith, "18sd"),
    (Group::Arith, "793d iiii"),
    (Group::Arith, "19sd"),
    (Group::Arith, "7A3n iiii iiii"),
    (Group::Arith, "1Axn"),
    (Group::Arith, "Adii"),
    (Group::Arith, "1Csd"),
    (Group::Arith, "792d iiii"),
    (Group::Arith, "1Dsd"),
    (Group::Arith, "7A2n iiii iiii"),
    (Group::Arith, "1Fxn"),
    (Group::Arith, "9dii"),
    (Group::Arith, "0Esd"),
    (Group::Arith, "0B0n"),
    (Group::Arith, "0B8n"),
    (Group::Arith, "0B9n"),
    (Group::Arith, "1B0n"),
    (Group::Arith, "1B8n"),
    (Group::Arith, "1B9n"),
    (Group::Arith, "0A0d"),
    (Group::Arith, "0B5d"),
    (Group::Arith, "0BDd"),
    (Group::Arith, "0B7n"),
    (Group::Arith, "0BFn"),
    (Group::Arith, "1A0d"),
    (Group::Arith, "1B5d"),
    (Group::Arith, "1BDd"),
    (Group::Arith, "1B7n"),
    (Group::Arith, "1BFn"),
    (Group::Arith, "178d"),
    (Group::Arith, "179d"),
    (Group::Arith, "17Bn"),
    (Group::Arith, "50sd"),
    (Group::Arith, "52sn"),
    (Group::Arith, "51sd"),
    (Group::Arith, "53sn"),
    // ---- logic / shift / rotate
    (Group::Logic, "Edii"),
    (Group::Logic, "Cdii"),
    (Group::Logic, "Ddii"),
    (Group::Logic, "16sd"),
    (Group::Logic, "14sd"),
    (Group::Logic, "15sd"),
    (Group::Logic, "796d iiii"),
    (Group::Logic, "794d iiii"),
    (Group::Logic, "795d iiii"),
    (Group::Logic, "66sd"),
    (Group::Logic, "64sd"),
    (Group::Logic, "65sd"),
    (Group::Logic, "7A6n iiii iiii"),
    (Group::Logic, "7A4n iiii iiii"),
    (Group::Logic, "7A5n iiii iiii"),
    (Group::Logic, "01F0 66mn"),
    (Group::Logic, "01F0 64mn"),
    (Group::Logic, "01F0 65mn"),
    (Group::Logic, "170d"),
    (Group::Logic, "171d"),
    (Group::Logic, "173n"),
    (Group::Logic, "175d"),
    (Group::Logic, "177n"),
    (Group::Logic, "100d"),
    (Group::Logic, "101d"),
    (Group::Logic, "103n"),
    (Group::Logic, "108d"),
    (Group::Logic, "109d"),
    (Group::Logic, "10Bn"),
    (Group::Logic, "110d"),
    (Group::Logic, "111d"),
    (Group::Logic, "113n"),
    (Group::Logic, "118d"),
    (Group::Logic, "119d"),
    (Group::Logic, "11Bn"),
    (Group::Logic, "120d"),
    (Group::Logic, "121d"),
    (Group::Logic, "123n"),
    (Group::Logic, "128d"),
    (Group::Logic, "129d"),
    (Group::Logic, "12Bn"),
    (Group::Logic, "130d"),
    (Group::Logic, "131d"),
    (Group::Logic, "133n"),
    (Group::Logic, "138d"),
    (Group::Logic, "139d"),
    (Group::Logic, "13Bn"),
    // ---- bit manipulation
    (Group::Bit, "70bd"),
    (Group::Bit, "71bd"),
    (Group::Bit, "72bd"),
    (Group::Bit, "60sd"),
    (Group::Bit, "61sd"),
    (Group::Bit, "62sd"),
    (Group::Bit, "7Dn0 70b0"),
    (Group::Bit, "7Dn0 71b0"),
    (Group::Bit, "7Dn0 72b0"),
    (Group::Bit, "7Dn0 60s0"),
    (Group::Bit, "7Dn0 61s0"),
    (Group::Bit, "7Dn0 62s0"),
    (Group::Bit, "7Faa 70b0"),
    (Group::Bit, "7Faa 71b0"),
    (Group::Bit, "7Faa 72b0"),
    (Group::Bit, "7Faa 60s0"),
    (Group::Bit, "7Faa 61s0"),
    (Group::Bit, "7Faa 62s0"),
    (Group::Bit, "73bd"),
    (Group::Bit, "63sd"),
    (Group::Bit, "7Cn0 73b0"),
    (Group::Bit, "7Cn0 63s0"),
    (Group::Bit, "7Eaa 73b0"),
    (Group::Bit, "7Eaa 63s0"),
    (Group::Bit, "67bd"),
    (Group::Bit, "67qd"),
    (Group::Bit, "7Dn0 67b0"),
    (Group::Bit, "7Dn0 67q0"),
    (Group::Bit, "7Faa 67b0"),
    (Group::Bit, "7Faa 67q0"),
    (Group::Bit, "77bd"),
    (Group::Bit, "77qd"),
    (Group::Bit, "76bd"),
    (Group::Bit, "76qd"),
    (Group::Bit, "74bd"),
    (Group::Bit, "74qd"),
    (Group::Bit, "75bd"),
    (Group::Bit, "75qd"),
    (Group::Bit, "7Cn0 77b0"),
    (Group::Bit, "7Cn0 77q0"),
    (Group::Bit, "7Cn0 76b0"),
    (Group::Bit, "7Cn0 76q0"),
    (Group::Bit, "7Cn0 74b0"),
    (Group::Bit, "7Cn0 74q0"),
    (Group::Bit, "7Cn0 75b0"),
    (Group::Bit, "7Cn0 75q0"),
    (Group::Bit, "7Eaa 77b0"),
    (Group::Bit, "7Eaa 77q0"),
    (Group::Bit, "7Eaa 76b0"),
    (Group::Bit, "7Eaa 76q0"),
    (Group::Bit, "7Eaa 74b0"),
    (Group::Bit, "7Eaa 74q0"),
    (Group::Bit, "7Eaa 75b0"),
    (Group::Bit, "7Eaa 75q0"),
    // ---- control flow
    (Group::Flow, "4cpp"),
    (Group::Flow, "58c0 pppp"),
    (Group::Flow, "59m0"),
    (Group::Flow, "5Aaa aaaa"),
    (Group::Flow, "5Baa"),
    (Group::Flow, "55pp"),
    (Group::Flow, "5C00 pppp"),
    (Group::Flow, "5Dm0"),
    (Group::Flow, "5Eaa aaaa"),
    (Group::Flow, "5Faa"),
    (Group::Flow, "5470"),
    (Group::Flow, "5670"),
    (Group::Flow, "57t0"),
    // ---- STC
    (Group::Stc, "020d"),
    (Group::Stc, "0140 69x0"),
    (Group::Stc, "0140 6Fx0 pppp"),
    (Group::Stc, "0140 78n0 6BA0 00pp pppp"),
    (Group::Stc, "0140 6Dx0"),
    (Group::Stc, "0140 6B80 aaaa"),
    (Group::Stc, "0140 6BA0 00aa aaaa"),
];

#[derive(Clone, Copy, Debug, Default)]
pub struct Fields {
    pub s: u8,
    pub d: u8,
    pub x: u8,
    pub imm: u32,
    pub abs: u32,
    pub disp: u32,
    pub bit: u8,
    pub cc: u8,
    pub trap: u8,
}

impl Fields {
    pub fn random(rng: &mut Rng) -> Fields {
        Fields {
            s: (rng.u8() & 15),
            d: (rng.u8() & 15),
            x: (rng.u8() & 7),
            imm: rng.u32(),
            abs: rng.u32(),
            disp: rng.u32(),
            bit: rng.u8() & 7,
            cc: rng.u8() & 15,
            trap: 1 + (rng.u8() % 3),
        }
    }
}

/// Fill a pattern. Multi-nibble fields (i, a, p) take the low bits of the field value, most
/// significant nibble first.
pub fn fill(pat: &str, f: &Fields) -> Vec<u16> {
    let nibs: Vec<char> = pat.chars().filter(|c| *c != ' ').collect();
    let count = |ch: char| nibs.iter().filter(|c| **c == ch).count() as u32;
    let (ni, na, np) = (count('i'), count('a'), count('p'));
    let (mut ki, mut ka, mut kp) = (0u32, 0u32, 0u32);
    let mut out = Vec::with_capacity(nibs.len() / 4);
    let mut cur: u16 = 0;
    for (idx, ch) in nibs.iter().enumerate() {
        let v: u8 = match *ch {
            's' => f.s & 15,
            'd' => f.d & 15,
            'm' => f.s & 7,
            'n' => f.d & 7,
            'x' => 8 | (f.x & 7),
            'i' => {
                ki += 1;
                ((f.imm >> (4 * (ni - ki))) & 15) as u8
            }
            'a' => {
                ka += 1;
                ((f.abs >> (4 * (na - ka))) & 15) as u8
            }
            'p' => {
                kp += 1;
                ((f.disp >> (4 * (np - kp))) & 15) as u8
            }
            'b' => f.bit & 7,
            'q' => 8 | (f.bit & 7),
            'c' => f.cc & 15,
            't' => f.trap & 3,
            h => h.to_digit(16).expect("bad pattern char") as u8,
        };
        cur = (cur << 4) | v as u16;
        if idx % 4 == 3 {
            out.push(cur);
            cur = 0;
        }
    }
    out
}

pub fn decode_words(ws: &[u16]) -> Insn {
    let mut w = [0u16; 5];
    for (i, x) in ws.iter().take(5).enumerate() {
        w[i] = *x;
    }
    decode(&w)
}

/// Sanity of the table itself: every pattern, filled with random fields, must decode as an
/// implemented instruction of exactly the pattern's length.
pub fn selftest_forms(rng: &mut Rng) -> Result<usize, String> {
    let mut n = 0;
    for (_, pat) in FORMS {
        for _ in 0..200 {
            let mut f = Fields::random(rng);
            f.abs &= 0xffffff;
            f.disp &= 0xffffff;
            let ws = fill(pat, &f);
            let i = decode_words(&ws);
            if i.class != Class::Impl || i.len as usize != ws.len() * 2 {
                return Err(format!("pattern {} filled {:04x?} decodes as {:?}", pat, ws, i));
            }
            n += 1;
        }
    }
    Ok(n)
}

pub fn forms_of(g: Group) -> Vec<&'static str> {
    FORMS.iter().filter(|(gg, _)| *gg == g).map(|(_, p)| *p).collect()
}

// ---------------------------------------------------------------------------------------------
// pools

pub fn data_pool(sz: Sz) -> Vec<u32> {
    match sz {
        Sz::B => vec![0, 1, 2, 0x0f, 0x10, 0x7e, 0x7f, 0x80, 0x81, 0xf0, 0xfe, 0xff, 0x55, 0xaa],
        Sz::W => vec![
            0, 1, 2, 0xff, 0x100, 0x0fff, 0x1000, 0x7ffe, 0x7fff, 0x8000, 0x8001, 0xff00, 0xfffe, 0xffff, 0x5555, 0xaaaa, 0x00ff, 0x0080, 0x007f,
        ],
        Sz::L => vec![
            0,
            1,
            2,
            0xffff,
            0x10000,
            0x0fff_ffff,
            0x1000_0000,
            0x7fff_fffe,
            0x7fff_ffff,
            0x8000_0000,
            0x8000_0001,
            0xffff_0000,
            0xffff_fffe,
            0xffff_ffff,
            0x5555_5555,
            0xaaaa_aaaa,
            0x0000_8000,
            0x0000_7fff,
            0x00ff_ffff,
            0x0100_0000,
        ],
    }
}

pub fn data(rng: &mut Rng, sz: Sz) -> u32 {
    // constants named in the emulator's source (see util::source_dictionary)
    if sz != Sz::B && rng.chance(1, 8) {
        if let Some(v) = crate::util::dict_value(rng) {
            return v & sz.mask();
        }
    }
    if rng.chance(1, 2) {
        let p = data_pool(sz);
        *rng.pick(&p)
    } else {
        match rng.below(4) {
            0 => 1u32 << rng.below(sz.bits() as u64),
            1 => !(1u32 << rng.below(sz.bits() as u64)) & sz.mask(),
            _ => rng.u32() & sz.mask(),
        }
    }
}

/// random register file: every byte lane distinct-looking so that a wrong register or lane shows
pub fn regs(rng: &mut Rng) -> [u32; 8] {
    let mut r = [0u32; 8];
    for x in r.iter_mut() {
        *x = rng.u32();
    }
    // a constant named in the emulator's source
    if rng.chance(1, 10) {
        if let Some(v) = crate::util::dict_value(rng) {
            r[rng.below(8) as usize] = v;
        }
    }
    // coincidences between independent values: equal registers, equal halves, small constants
    if rng.chance(1, 6) {
        let (i, j) = (rng.below(8) as usize, rng.below(8) as usize);
        r[i] = r[j];
    }
    if rng.chance(1, 10) {
        let i = rng.below(8) as usize;
        r[i] = (r[i] & 0xffff) * 0x10001;
    }
    if rng.chance(1, 10) {
        let i = rng.below(8) as usize;
        r[i] = *rng.pick(&[0u32, 1, 0xffff_ffff, 0x8000_0000, 0x0000_ffff, 0xffff_0000, 0x00ff_00ff]);
    }
    r
}

/// bus-controller settings as a rarely varied configuration dimension of the value-level checks
pub fn maybe_bus(rng: &mut Rng, c: &mut Case) {
    match rng.below(8) {
        0 | 1 => {
            let b = crate::refmodel::cost::BusRegs { abwcr: rng.u8(), astcr: rng.u8(), wcrh: rng.u8(), wcrl: rng.u8(), drcra: rng.u8() };
            c.bus(&b);
        }
        2 => {
            // one register alone on top of the current background (the way a guest changes settings):
            // whatever the emulator derives from the settings must follow each register on its own
            use crate::refmodel::cost::{ABWCR, ASTCR, DRCRA, WCRH, WCRL};
            let reg = *rng.pick(&[ABWCR, ASTCR, WCRH, WCRL, DRCRA, DRCRA]);
            c.patches.push((reg, rng.u8()));
        }
        _ => {}
    }
}

/// Contents of on-chip I/O register locations that this emulator keeps as plain storage (system
/// control, interrupt controller, DMA, serial, A/D, ... on the real chip; everything accessible in
/// the two register blocks except the port DDR/DR registers, the 8-bit timer block and the five
/// bus-controller registers the cost function reads): a configuration dimension - no instruction,
/// exception entry or interrupt decision may depend on them.
pub fn io_noise(rng: &mut Rng) -> Vec<(u32, u8)> {
    let n = 1 + rng.below(3);
    (0..n)
        .map(|_| {
            let a = loop {
                // half of the picks from the system / interrupt / bus / refresh control registers of the
                // real chip (MDCR, SYSCR, BRCR, ISCR, IER, ISR, IPRA, IPRB, DASTCR, ..., BCR, DRCRB, RTMCSR, ...)
                let a = match rng.below(4) {
                    0 | 1 => *rng.pick(&[0xfee011u32, 0xfee012, 0xfee013, 0xfee014, 0xfee015, 0xfee016, 0xfee018, 0xfee019, 0xfee01a, 0xfee01c, 0xfee01d, 0xfee01e, 0xfee01f, 0xfee024, 0xfee027, 0xfee028, 0xfee029, 0xfee02a, 0xfee030, 0xfee032, 0xfee03c, 0xfee03e]),
                    2 => 0xfee000 + rng.below(0x100) as u32,
                    _ => 0xffff20 + rng.below(0xca) as u32,
                };
                if !crate::refmodel::mem::is_special_io(a) && !(0xfee020..=0xfee026).contains(&a) {
                    break a;
                }
            };
            let v = match rng.below(4) {
                0 => 0xff,
                1 => 1u8 << rng.below(8),
                2 => *rng.pick(&[0x09u8, 0x80, 0x0f, 0xf0, 0x08]),
                _ => rng.u8(),
            };
            (a, v)
        })
        .collect()
}
pub fn maybe_io(rng: &mut Rng, c: &mut Case) {
    if rng.chance(1, 6) {
        c.patches.extend(io_noise(rng));
    }
}

#[derive(Clone, Copy, PartialEq, Eq, Debug, Hash)]
pub enum Region {
    Ram,
    Dram,
    Vec,
}

/// Operand address of `n` bytes inside a region, biased to the region's first / last bytes;
/// even for n > 1.
pub fn addr_in(rng: &mut Rng, reg: Region, n: u32) -> u32 {
    let (lo, hi) = match reg {
        Region::Ram => (RAM_LO, RAM_HI),
        Region::Dram => (DRAM_LO, DRAM_HI),
        Region::Vec => (0, 0xff),
    };
    let last = hi + 1 - n; // last start address that still fits
    // an address named in the emulator's source, if it lies in this region
    // ... or an address of this region that shares its low 16 / low 8 bits with one (partial decoding)
    if rng.chance(1, 12) {
        if let Some(v) = crate::util::dict_value(rng) {
            let r = lo + rng.below((last - lo + 1) as u64) as u32;
            let v = match rng.below(3) {
                0 => v & 0xff_ffff,
                1 => (r & !0xffff) | (v & 0xffff),
                _ => (r & !0xff) | (v & 0xff),
            };
            let v = if n > 1 { v & !1 } else { v };
            if v >= lo && v <= last {
                return v;
            }
        }
    }
    let mut a = match rng.below(8) {
        0 => lo + rng.below(8) as u32,
        1 => last - rng.below(8) as u32,
        // carry boundaries of the address arithmetic: around multiples of 64 KiB and of 256
        2 => ((lo + rng.below((last - lo + 1) as u64) as u32) & !0xffff).wrapping_add(rng.below(12) as u32).wrapping_sub(6),
        3 => ((lo + rng.below((last - lo + 1) as u64) as u32) & !0xff).wrapping_add(rng.below(12) as u32).wrapping_sub(6),
        _ => lo + rng.below((last - lo + 1) as u64) as u32,
    };
    if a < lo || a > last {
        a = lo + rng.below((last - lo + 1) as u64) as u32;
    }
    if n > 1 {
        a &= !1;
    }
    if a < lo {
        a = lo;
    }
    if a > last {
        a = last & !1;
    }
    a
}

pub fn any_region(rng: &mut Rng) -> Region {
    match rng.below(5) {
        0 | 1 => Region::Ram,
        2 | 3 => Region::Dram,
        _ => Region::Vec,
    }
}

/// Code position (even) with room for `len` bytes plus slack, in RAM or DRAM.
pub fn code_addr(rng: &mut Rng, dram: bool) -> u32 {
    // occasionally the code sits in the vector area (a mapped region like any other)
    if rng.chance(1, 24) {
        return (rng.below(0x70) as u32) * 2;
    }
    let (lo, hi) = if dram { (DRAM_LO, DRAM_HI) } else { (RAM_LO, RAM_HI) };
    let a = match rng.below(5) {
        0 => lo + rng.below(16) as u32,
        1 => hi - 31 - rng.below(16) as u32,
        _ => lo + rng.below((hi - lo - 64) as u64) as u32,
    };
    a & !1
}

/// 16-bit displacement pool (raw)
pub fn disp16(rng: &mut Rng) -> u16 {
    match rng.below(4) {
        0 => *rng.pick(&[0u16, 1, 2, 4, 0x7e, 0x7f, 0x80, 0xff, 0x100, 0x7ffe, 0x7fff, 0x8000, 0x8001, 0xff00, 0xfffe, 0xffff, 0xfffc]),
        _ => rng.u16(),
    }
}
pub fn disp24(rng: &mut Rng) -> u32 {
    match rng.below(4) {
        0 => *rng.pick(&[0u32, 1, 2, 4, 0x7fff, 0x8000, 0xffff, 0x10000, 0x7ffffe, 0x7fffff, 0x800000, 0x800001, 0xff0000, 0xfffffe, 0xffffff, 0xfffffc]),
        _ => rng.u32() & 0xffffff,
    }
}

/// Which memory operand (if any) an instruction has.
pub fn mem_operand(i: &Insn) -> Option<Opd> {
    for o in [i.src, i.dst] {
        match o {
            Opd::Ind(_) | Opd::D16(..) | Opd::D24(..) | Opd::PostInc(_) | Opd::PreDec(_) | Opd::A8(_) | Opd::A16(_) | Opd::A24(_) | Opd::MInd(_) => return Some(o),
            _ => {}
        }
    }
    None
}

/// Value the address register must hold so that operand `o` (size sz) addresses `ea`;
/// `top` is the register's upper byte (free: it must not influence the access).
pub fn base_for(o: Opd, sz: Sz, ea: u32, top: u8) -> Option<(u8, u32)> {
    let t = (top as u32) << 24;
    match o {
        Opd::Ind(n) | Opd::PostInc(n) => Some((n, (ea & 0xffffff) | t)),
        Opd::PreDec(n) => Some((n, ((ea & 0xffffff) | t).wrapping_add(sz.bytes()))),
        Opd::D16(n, d) => Some((n, (ea.wrapping_sub(sext(d as u32, 16)) & 0xffffff) | t)),
        Opd::D24(n, d) => Some((n, (ea.wrapping_sub(sext(d, 24)) & 0xffffff) | t)),
        _ => None,
    }
}

/// operand size of the memory access an instruction performs
pub fn access_size(i: &Insn) -> Sz {
    use crate::refmodel::decode::Mn::*;
    match i.mn {
        Mov => i.sz,
        Stc => Sz::W,
        Jmp | Jsr => Sz::L,
        _ => Sz::B,
    }
}

pub fn set_bytes(c: &mut Case, a: u32, sz: Sz, v: u32) {
    let n = sz.bytes();
    for k in 0..n {
        c.patches.push((a + k, (v >> (8 * (n - 1 - k))) as u8));
    }
}

// ---------------------------------------------------------------------------------------------
// generic case builder for any form of the table

#[derive(Clone, Copy, PartialEq, Eq, Debug, Hash)]
pub enum EaRegion {
    Ram,
    Dram,
    Vec,
    /// plain on-chip I/O bytes (no port / timer registers) reachable through @aa:8
    Io2Plain,
    /// anything not mapped (the step must fail)
    Hole,
}

#[derive(Clone, Debug)]
pub struct BuildOpts {
    pub ea_regions: Vec<EaRegion>,
    /// stack placement for call / return / trap forms
    pub sp_regions: Vec<EaRegion>,
    /// upper byte of address registers / SP / vector entries: None = random incl. non-zero
    pub top: Option<u8>,
    pub data: Option<u32>,
    pub ccr: Option<u8>,
    pub code_dram: Option<bool>,
    /// make register + displacement sums wrap (2^24 / 2^32 / negative) more often
    pub wrap_heavy: bool,
    pub fields: Option<Fields>,
    pub pc: Option<u32>,
}

impl Default for BuildOpts {
    fn default() -> Self {
        BuildOpts {
            ea_regions: vec![EaRegion::Ram, EaRegion::Dram, EaRegion::Vec],
            sp_regions: vec![EaRegion::Ram, EaRegion::Dram],
            top: None,
            data: None,
            ccr: None,
            code_dram: None,
            wrap_heavy: false,
            fields: None,
            pc: None,
        }
    }
}

pub struct Built {
    pub case: Case,
    pub insn: Insn,
    pub ea: Option<u32>,
    pub region: Option<EaRegion>,
    pub sp_region: Option<EaRegion>,
    pub data: u32,
}

fn ea_in(rng: &mut Rng, reg: EaRegion, n: u32) -> u32 {
    match reg {
        EaRegion::Ram => addr_in(rng, Region::Ram, n),
        EaRegion::Dram => addr_in(rng, Region::Dram, n),
        EaRegion::Vec => addr_in(rng, Region::Vec, n),
        EaRegion::Io2Plain => {
            // 0xffff20-0xffff7f, 0xffffa0-0xffffcf, 0xffffdb-0xffffe9 minus room for n bytes
            loop {
                let mut a = 0xffff20 + rng.below(0xca) as u32;
                // a register address named in the emulator's source (or its neighbours)
                if rng.chance(1, 6) {
                    if let Some(v) = crate::util::dict_value(rng) {
                        let v = 0xffff00 | (v & 0xff);
                        if (0xffff20..=0xffffe9).contains(&v) {
                            a = v;
                        }
                    }
                }
                let a = if n > 1 { a & !1 } else { a };
                let ok = (0..n).all(|k| {
                    let x = a + k;
                    (x >= 0xffff20 && x <= 0xffff7f) || (x >= 0xffffa0 && x <= 0xffffcf) || (x >= 0xffffdb && x <= 0xffffe9)
                });
                if ok {
                    return a;
                }
            }
        }
        EaRegion::Hole => loop {
            let a = match rng.below(6) {
                0 => 0x100 + rng.below(16) as u32,
                1 => 0x3ffffc + rng.below(4) as u32,
                2 => 0x600000 + rng.below(8) as u32,
                3 => 0xffbf10 + rng.below(16) as u32,
                4 => 0xffffea + rng.below(0x16) as u32,
                _ => rng.u32() & 0xffffff,
            };
            let a = if n > 1 { a & !1 } else { a };
            if (0..n).all(|k| crate::refmodel::mem::locate(a + k).is_none()) {
                return a;
            }
        },
    }
}

/// can an operand in this mode reach region `reg`?
fn mode_reaches(o: Opd, reg: EaRegion) -> bool {
    match o {
        Opd::A8(_) => matches!(reg, EaRegion::Ram | EaRegion::Io2Plain | EaRegion::Hole),
        Opd::A16(_) => matches!(reg, EaRegion::Ram | EaRegion::Vec | EaRegion::Io2Plain | EaRegion::Hole),
        Opd::MInd(_) => matches!(reg, EaRegion::Vec),
        _ => true,
    }
}

pub fn build_case(pat: &str, rng: &mut Rng, o: &BuildOpts) -> Option<Built> {
    use crate::refmodel::decode::Mn;
    let mut f = o.fields.unwrap_or_else(|| Fields::random(rng));
    f.disp = if rng.chance(1, 2) { disp16(rng) as u32 | ((disp24(rng)) & 0xff0000) } else { disp24(rng) };
    // first decode to learn the operand modes
    let probe = decode_words(&fill(pat, &f));
    let asz = access_size(&probe);
    let n = asz.bytes();
    let memop = mem_operand(&probe);
    let is_flow = matches!(probe.mn, Mn::Bcc | Mn::Jmp | Mn::Bsr | Mn::Jsr | Mn::Rts | Mn::Rte | Mn::Trapa);
    let mut region = None;
    let mut ea = None;
    let top = |rng: &mut Rng| {
        o.top.unwrap_or_else(|| {
            if o.wrap_heavy {
                *rng.pick(&[0u8, 0xff, 0, 0xff, 0x80, 0x7f, 1, 0xfe])
            } else if rng.chance(1, 3) {
                0
            } else {
                rng.u8()
            }
        })
    };

    // ---- effective address of a data operand (not for JMP/JSR targets)
    if let Some(mo) = memop {
        if !matches!(mo, Opd::MInd(_)) && !(is_flow) {
            let cands: Vec<EaRegion> = o.ea_regions.iter().copied().filter(|r| mode_reaches(mo, *r)).collect();
            if cands.is_empty() {
                return None;
            }
            let reg = *rng.pick(&cands);
            let a = match (mo, reg) {
                (Opd::A8(_), EaRegion::Ram) => {
                    let a = 0xffff00 + rng.below((0x20 - n + 1) as u64) as u32;
                    if n > 1 {
                        a & !1
                    } else {
                        a
                    }
                }
                (Opd::A8(_), EaRegion::Hole) => 0xffffea + rng.below(0x16) as u32,
                (Opd::A16(_), EaRegion::Ram) => {
                    // RAM part reachable by sign extension: 0xffbf20..0xffff1f is entirely >= 0xff8000
                    ea_in(rng, EaRegion::Ram, n)
                }
                (Opd::A16(_), EaRegion::Hole) => loop {
                    let raw = rng.u16();
                    let a = sext(raw as u32, 16) & 0xffffff;
                    let a = if n > 1 { a & !1 } else { a };
                    if (0..n).all(|k| crate::refmodel::mem::locate(a + k).is_none()) {
                        break a;
                    }
                },
                (_, r) => ea_in(rng, r, n),
            };
            region = Some(reg);
            ea = Some(a);
            f.abs = a;
        }
    }
    if let Some(Opd::MInd(_)) = memop {
        f.abs = (rng.below(0x7f) as u32) * 2; // even slot, 4 bytes fit below 0x100
        region = Some(EaRegion::Vec);
        ea = Some(f.abs);
    }
    // ---- code position
    let len = (pat.chars().filter(|c| *c != ' ').count() / 2) as u32;
    let pc = o.pc.unwrap_or_else(|| {
        let dram = o.code_dram.unwrap_or_else(|| rng.chance(1, 2));
        code_addr(rng, dram)
    });
    // ---- control flow: displacement / target
    let target_abs = {
        // an even 24-bit target anywhere (it is not fetched in a single step)
        match rng.below(4) {
            0 => code_addr(rng, false),
            1 => code_addr(rng, true),
            _ => rng.u32() & 0xfffffe,
        }
    };
    if is_flow {
        match probe.src {
            Opd::Rel(_, bits) => {
                let next = pc + len;
                let d: u32 = if bits == 8 { ((rng.u8() & 0xfe) as i8) as i32 as u32 } else { ((disp16(rng) & 0xfffe) as i16) as i32 as u32 };
                let t = next.wrapping_add(d);
                let d = if t > 0xffffff { 0u32.wrapping_sub(d) } else { d }; // mirror instead of wrapping
                f.disp = d & if bits == 8 { 0xff } else { 0xffff };
            }
            Opd::A24(_) => f.abs = target_abs,
            _ => {}
        }
    }
    if let Some(Opd::Imm(_)) = Some(probe.src) {
        f.imm = o.data.unwrap_or_else(|| data(rng, probe.sz));
    }
    let ws = fill(pat, &f);
    let insn = decode_words(&ws);
    if insn.class != Class::Impl {
        return None;
    }
    let mut c = Case::words(pc, &ws);
    c.er = regs(rng);
    c.ccr = o.ccr.unwrap_or_else(|| rng.u8());
    let dval = o.data.unwrap_or_else(|| data(rng, insn.sz));

    // ---- data register / memory contents
    use crate::refmodel::exec::wrr;
    match insn.mn {
        Mn::Mov => {
            if let Opd::R(sf) = insn.src {
                wrr(&mut c.er, sf, insn.sz, dval);
            }
        }
        _ => {}
    }
    // ---- address register
    if let (Some(mo), Some(a)) = (memop, ea) {
        if !is_flow {
            let t = top(rng);
            if let Some((nreg, v)) = base_for(mo, asz, a, t) {
                c.er[nreg as usize] = v;
            }
            // loads: put the data at the EA
            let loads = match insn.mn {
                Mn::Mov => mem_operand_is_src(&insn),
                Mn::Stc => false,
                _ => true, // bit operations read their operand
            };
            if loads && crate::refmodel::mem::locate(a).is_some() {
                set_bytes(&mut c, a, asz, dval);
            }
        }
    }
    // ---- flow specifics
    let mut sp_region = None;
    if is_flow {
        let t = top(rng);
        match insn.src {
            Opd::Ind(nr) => c.er[nr as usize] = target_abs | ((t as u32) << 24),
            Opd::MInd(a) => c.patch32(a as u32, target_abs | ((t as u32) << 24)),
            _ => {}
        }
        if matches!(insn.mn, Mn::Bsr | Mn::Jsr | Mn::Rts | Mn::Rte | Mn::Trapa) {
            let reg = *rng.pick(&o.sp_regions);
            sp_region = Some(reg);
            let pushes = matches!(insn.mn, Mn::Bsr | Mn::Jsr | Mn::Trapa);
            // frame address (4 bytes, even)
            let mut fa;
            let mut tries = 0;
            loop {
                fa = match reg {
                    EaRegion::Hole => ea_in(rng, EaRegion::Hole, 4),
                    r => {
                        let a = ea_in(rng, r, 4);
                        if r == EaRegion::Vec {
                            a.max(0x104)
                        } else {
                            a
                        }
                    }
                };
                tries += 1;
                // popped frames stay away from the instruction's own bytes (the patch would replace
                // the instruction); pushed frames may land on it (the instruction has been fetched)
                if pushes && tries == 1 && rng.chance(1, 24) && crate::refmodel::mem::locate(pc).map(|l| l.0) == crate::refmodel::mem::locate(fa).map(|l| l.0) {
                    fa = (pc + 2 * rng.below(6) as u32).wrapping_sub(4) & 0xfffffe;
                    break;
                }
                if tries > 8 || fa + 4 <= pc || fa >= pc + 16 {
                    break;
                }
            }
            let st = top(rng);
            let sp = if pushes { fa.wrapping_add(4) } else { fa };
            c.er[7] = (sp & 0xffffff) | ((st as u32) << 24);
            // keep JSR @ERn target register intact if it is not ER7
            if let Opd::Ind(nr) = insn.src {
                if nr != 7 {
                    c.er[nr as usize] = target_abs | ((t as u32) << 24);
                }
            }
            if !pushes && crate::refmodel::mem::locate(fa).is_some() {
                c.patch32(fa, ((rng.u8() as u32) << 24) | target_abs);
            }
            if insn.mn == Mn::Trapa {
                c.patch32(4 * (8 + insn.k as u32), target_abs | ((top(rng) as u32) << 24));
            }
        }
    }
    maybe_bus(rng, &mut c);
    maybe_io(rng, &mut c);
    // bit 0 of PC set (left behind by an earlier jump/return through an odd value): fetch ignores it
    if !is_flow && rng.chance(1, 12) {
        c.pc |= 1;
    }
    Some(Built { case: c, insn, ea, region, sp_region, data: dval })
}

pub fn mem_operand_is_src(i: &Insn) -> bool {
    matches!(i.src, Opd::Ind(_) | Opd::D16(..) | Opd::D24(..) | Opd::PostInc(_) | Opd::PreDec(_) | Opd::A8(_) | Opd::A16(_) | Opd::A24(_))
}
