//! C11 (segments + GOT relocation) and C12 (process environment) — generated ELF32-BE files are
//! loaded with the real `elf::load`; an independent layout model says what must be in DRAM and
//! in the registers afterwards.

use crate::cpu::Cpu;
use crate::util::{take_panic, Cfg, Report, Rng};
use std::panic::{catch_unwind, AssertUnwindSafe};

pub const BASE: u32 = 0x416900;
const DRAM_LO: u32 = 0x400000;
const DRAM_SIZE: usize = 0x200000;

#[derive(Clone, Debug)]
pub struct Seg {
    pub vaddr: u32,
    pub data: Vec<u8>,
    pub memsz: u32,
    pub offset: u32,
}

#[derive(Clone, Debug)]
pub struct Phdr {
    /// index into segs for PT_LOAD, or a non-load header with arbitrary fields
    pub load: Option<usize>,
    pub raw: [u32; 8],
}

#[derive(Clone, Debug)]
pub struct Layout {
    pub segs: Vec<Seg>,
    pub phdrs: Vec<Phdr>,
    pub got_addr: u32,
    pub got_entries: Vec<u32>,
    pub stack_size: u32,
    pub symbols: Vec<(String, u32)>,
    pub exit_index: usize,
    pub args: String,
    pub section_order: Vec<usize>,
    pub shape: [u64; 5],
}

fn be32(v: &mut Vec<u8>, x: u32) {
    v.extend_from_slice(&x.to_be_bytes());
}
fn be16(v: &mut Vec<u8>, x: u16) {
    v.extend_from_slice(&x.to_be_bytes());
}

fn graphic(rng: &mut Rng, n: usize) -> String {
    (0..n).map(|_| (0x21 + rng.below(0x5e) as u8) as char).collect()
}

/// an argument word of n characters: printable ASCII, one word in four with 2/3/4-byte characters
/// (none of them white space) - the copy must be byte-exact
fn arg_word(rng: &mut Rng, n: usize) -> String {
    if rng.chance(3, 4) {
        return graphic(rng, n);
    }
    let pool = ['\u{e9}', '\u{df}', '\u{7ff}', '\u{800}', '\u{3042}', '\u{ffe5}', '\u{fffd}', '\u{1f600}', '\u{10ffff}', '\u{1}', '\u{7f}', '\\', '"', '\''];
    (0..n).map(|_| if rng.chance(1, 2) { *rng.pick(&pool) } else { (0x21 + rng.below(0x5e) as u8) as char }).collect()
}

pub fn gen_layout(rng: &mut Rng) -> Layout {
    // ---- segments: ascending, non-overlapping virtual addresses
    let nseg = 1 + rng.below(4) as usize;
    let mut segs = vec![];
    let mut v = if rng.chance(1, 2) { 0 } else { rng.below(64) as u32 };
    for _ in 0..nseg {
        let filesz = match rng.below(5) {
            0 => rng.below(8) as u32,
            1 => 1 + rng.below(40_000) as u32,
            _ => 1 + rng.below(2_000) as u32,
        };
        let memsz = filesz + if rng.chance(1, 2) { 0 } else { rng.below(3_000) as u32 };
        let data: Vec<u8> = (0..filesz).map(|_| rng.u8() | if rng.chance(1, 8) { 0 } else { 1 }).collect();
        segs.push(Seg { vaddr: v, data, memsz, offset: 0 });
        v += memsz + if rng.chance(1, 2) { 0 } else { rng.below(600) as u32 };
    }
    // ---- GOT: 0-64 entries inside the file contents of one segment (4-byte entries, even address)
    let mut got_entries = vec![];
    let mut got_addr = 0;
    let big: Vec<usize> = (0..nseg).filter(|i| segs[*i].data.len() >= 8).collect();
    if !big.is_empty() {
        let si = *rng.pick(&big);
        let room = segs[si].data.len() as u32;
        let n = (rng.below(65) as u32).min((room - 4) / 4);
        let off = (rng.below((room - 4 * n) as u64 + 1) as u32) & !1;
        let off = off.min(room - 4 * n);
        got_addr = segs[si].vaddr + off;
        for k in 0..n {
            let val = match rng.below(6) {
                0 => 0,
                1 => 0xffff_ffff - BASE, // sum = 0xffffffff
                2 => 0x0100_0000 - BASE.min(0x0100_0000) + rng.below(0x1000) as u32,
                3 => 0x00ff_ffff - (BASE & 0xffffff) + rng.below(16) as u32, // carries into the top byte
                4 => rng.u32() % (0xffff_ffff - BASE),
                _ => rng.below(0x20000) as u32,
            };
            got_entries.push(val);
            let o = (off + 4 * k) as usize;
            segs[si].data[o..o + 4].copy_from_slice(&val.to_be_bytes());
        }
    } else {
        got_addr = segs[0].vaddr;
    }
    // ---- occasionally a PT_LOAD nested inside another one (a section assigned to two segments by a
    // PHDRS linker script): it starts higher and ends lower than its host, carries the same bytes, and
    // follows it in the table, so p_vaddr still ascends
    let mut nested = 0u64;
    if rng.chance(1, 6) {
        let hosts: Vec<usize> = (0..segs.len()).filter(|i| segs[*i].data.len() >= 16).collect();
        if !hosts.is_empty() {
            let hi = if rng.chance(1, 2) { *hosts.last().unwrap() } else { *rng.pick(&hosts) };
            let hl = segs[hi].data.len() as u32;
            let x = 1 + rng.below((hl - 2) as u64) as u32;
            let len = 1 + rng.below((hl - x - 1).max(1) as u64) as u32;
            let data = segs[hi].data[x as usize..(x + len) as usize].to_vec();
            let inner = Seg { vaddr: segs[hi].vaddr + x, data, memsz: len, offset: 0 };
            segs.insert(hi + 1, inner);
            nested = 1 + (hi + 2 == segs.len()) as u64;
        }
    }
    // ---- program headers: loads in ascending order, non-load headers in any position
    let mut phdrs: Vec<Phdr> = (0..segs.len()).map(|i| Phdr { load: Some(i), raw: [0; 8] }).collect();
    let nnon = match rng.below(4) {
        0 => 0,
        1 => 1,
        _ => rng.below(4) as usize,
    };
    let mut nonload_last = false;
    for _ in 0..nnon {
        let ty = *rng.pick(&[0u32, 2, 3, 4, 6, 7, 0x6474e551, 0x6474e552, 0x7000_0001, 5]);
        let wild = rng.chance(1, 3);
        let raw = [
            ty,
            if wild { rng.u32() } else { rng.below(0x400) as u32 },
            if wild { rng.u32() } else { rng.below(0x20000) as u32 },
            if wild { rng.u32() } else { rng.below(0x20000) as u32 },
            if wild { rng.u32() } else { rng.below(0x1000) as u32 },
            if wild { rng.u32() } else { rng.below(0x40000) as u32 },
            rng.u32() & 7,
            1 << rng.below(5),
        ];
        let pos = rng.below(phdrs.len() as u64 + 1) as usize;
        if pos == phdrs.len() {
            nonload_last = true;
        }
        phdrs.insert(pos, Phdr { load: None, raw });
    }
    nonload_last = phdrs.last().map(|p| p.load.is_none()).unwrap_or(false) || nonload_last && phdrs.last().unwrap().load.is_none();
    // ---- stack, symbols, args
    let stack_size = match rng.below(5) {
        0 => 0,
        1 => 0x10000,
        2 => rng.below(16) as u32,
        _ => rng.below(0x10001) as u32,
    };
    let nsym = 1 + rng.below(200) as usize;
    let exit_index = rng.below(nsym as u64) as usize;
    let image_end = segs.iter().map(|s| s.vaddr + s.memsz).max().unwrap();
    let mut symbols = vec![];
    for i in 0..nsym {
        if i == exit_index {
            symbols.push(("___exit".to_string(), (rng.below(image_end as u64 + 1) as u32) & !1));
        } else {
            let name = match rng.below(8) {
                0 => "___exit2".to_string(),
                1 => "__exit".to_string(),
                2 => "___exi".to_string(),
                3 => String::new(),
                4 => "_exit".to_string(),
                // names that are not identifier-like (FILE symbols with blanks, non-ASCII, control characters)
                5 => rng.pick(&["hello world.c", "a b", "caf\u{e9}.c", "\u{3042}", "tab\there", "___exit ", " ___exit", "x\u{1}y", "sp ace/___exit"]).to_string(),
                _ => {
                    let n = 1 + rng.below(24) as usize;
                    graphic(rng, n)
                }
            };
            symbols.push((name, rng.u32()));
        }
    }
    let nargs = match rng.below(4) {
        0 => 0,
        1 => 1,
        _ => rng.below(33) as usize,
    };
    let mut args = String::new();
    let ws = |rng: &mut Rng| -> String {
        let n = 1 + rng.below(4) as usize;
        (0..n).map(|_| if rng.chance(1, 3) { *rng.pick(&['\t', '\n', '\r', '\u{c}']) } else { ' ' }).collect()
    };
    if rng.chance(1, 3) {
        args.push_str(&ws(rng));
    }
    for i in 0..nargs {
        let n = match rng.below(24) {
            0..=3 => 200,
            4..=7 => 1,
            8 => 3000 + rng.below(3000) as usize,
            _ => 1 + rng.below(20) as usize,
        };
        args.push_str(&arg_word(rng, n));
        if i + 1 < nargs || rng.chance(1, 3) {
            args.push_str(&ws(rng));
        }
    }
    let mut section_order: Vec<usize> = (0..11).collect();
    if rng.chance(3, 4) {
        for i in (1..section_order.len()).rev() {
            let j = rng.below(i as u64 + 1) as usize;
            section_order.swap(i, j);
        }
    }
    let first_nonload = phdrs.first().map(|p| p.load.is_none()).unwrap_or(false);
    let got_place = if got_entries.is_empty() { 0 } else { 1 + (got_addr & 3 != 0) as u64 };
    let shape = [nseg as u64 + 8 * nested, (nonload_last as u64) * 2 + first_nonload as u64 + 4 * (nnon.min(1) as u64), got_place, (nargs.min(4)) as u64, (stack_size == 0) as u64 + 2 * (stack_size == 0x10000) as u64 + 4 * (stack_size & 3 != 0) as u64];
    Layout { segs, phdrs, got_addr, got_entries, stack_size, symbols, exit_index, args, section_order, shape }
}

/// Serialise the layout as an ELF32 big-endian executable.
pub fn write_elf(l: &mut Layout, rng: &mut Rng) -> Vec<u8> {
    let mut f: Vec<u8> = vec![0; 52];
    let pad = |f: &mut Vec<u8>, rng: &mut Rng| {
        let n = rng.below(24) as usize;
        for _ in 0..n {
            f.push(rng.u8());
        }
    };
    // program header table position: right after the header or later
    let ph_first = rng.chance(2, 3);
    let phnum = l.phdrs.len();
    let mut phoff = 0usize;
    if ph_first {
        if rng.chance(1, 2) {
            pad(&mut f, rng);
        }
        phoff = f.len();
        f.resize(f.len() + 32 * phnum, 0);
    }
    // segment contents in shuffled file order
    let mut order: Vec<usize> = (0..l.segs.len()).collect();
    for i in (1..order.len()).rev() {
        let j = rng.below(i as u64 + 1) as usize;
        order.swap(i, j);
    }
    for &si in &order {
        pad(&mut f, rng);
        l.segs[si].offset = f.len() as u32;
        f.extend_from_slice(&l.segs[si].data);
    }
    if !ph_first {
        pad(&mut f, rng);
        phoff = f.len();
        f.resize(f.len() + 32 * phnum, 0);
    }
    // string tables
    // sections (logical ids): 0 .text 1 .data 2 .got 3 .bss 4 .stack 5 .shstrtab 6 .symtab 7 .strtab 8 .got.plt 9 .stackx 10 .comment
    let names = [".text", ".data", ".got", ".bss", ".stack", ".shstrtab", ".symtab", ".strtab", ".got.plt", ".stackx", ".comment"];
    let mut shstr: Vec<u8> = vec![0];
    let mut name_off = vec![0u32; names.len()];
    // one file in three shares string-table tails the way linkers do: ".got" is stored only as the tail
    // of ".rela.got", ".strtab" as the tail of ".shstrtab", ".stack" as the tail of ".note.stack"
    let share = rng.chance(1, 3);
    for (i, n) in names.iter().enumerate() {
        if share && matches!(*n, ".got" | ".strtab" | ".stack") {
            continue;
        }
        if share && *n == ".shstrtab" {
            name_off[7] = shstr.len() as u32 + 2;
        }
        name_off[i] = shstr.len() as u32;
        shstr.extend_from_slice(n.as_bytes());
        shstr.push(0);
    }
    if share {
        name_off[2] = shstr.len() as u32 + 5;
        shstr.extend_from_slice(b".rela.got\0");
        name_off[4] = shstr.len() as u32 + 5;
        shstr.extend_from_slice(b".note.stack\0");
    }
    let mut strtab: Vec<u8> = vec![0];
    let mut sym_name_off = vec![];
    let share_sym = rng.chance(1, 4);
    let mut shared_exit: Option<u32> = None;
    for (n, _) in &l.symbols {
        if n.is_empty() {
            sym_name_off.push(0u32);
        } else if share_sym && n == "___exit" {
            // stored only as the tail of a longer entry
            let off = *shared_exit.get_or_insert_with(|| {
                let o = strtab.len() as u32;
                strtab.extend_from_slice(b"at___exit\0");
                o + 2
            });
            sym_name_off.push(off);
        } else {
            sym_name_off.push(strtab.len() as u32);
            strtab.extend_from_slice(n.as_bytes());
            strtab.push(0);
        }
    }
    let mut symtab: Vec<u8> = vec![];
    for (i, (_, v)) in l.symbols.iter().enumerate() {
        be32(&mut symtab, sym_name_off[i]);
        be32(&mut symtab, *v);
        be32(&mut symtab, rng.below(64) as u32);
        symtab.push(rng.u8());
        symtab.push(0);
        be16(&mut symtab, rng.below(8) as u16);
    }
    pad(&mut f, rng);
    let shstr_off = f.len();
    f.extend_from_slice(&shstr);
    pad(&mut f, rng);
    while f.len() % 4 != 0 {
        f.push(0);
    }
    let symtab_off = f.len();
    f.extend_from_slice(&symtab);
    pad(&mut f, rng);
    let strtab_off = f.len();
    f.extend_from_slice(&strtab);
    pad(&mut f, rng);
    // section header table: null section first, the rest in the generated order
    let nsec = 1 + names.len();
    let mut index_of = vec![0usize; names.len()];
    for (pos, id) in l.section_order.iter().enumerate() {
        index_of[*id] = pos + 1;
    }
    let shoff = f.len();
    let image_end = l.segs.iter().map(|s| s.vaddr + s.memsz).max().unwrap();
    let seg0 = &l.segs[0];
    let lastseg = l.segs.last().unwrap();
    let mut sh = vec![0u8; 40];
    for id in &l.section_order {
        // name, type, flags, addr, offset, size, link, info, align, entsize
        let (ty, flags, addr, off, size, link, info, align, ent): (u32, u32, u32, u32, u32, u32, u32, u32, u32) = match *id {
            0 => (1, 6, seg0.vaddr, seg0.offset, seg0.data.len() as u32, 0, 0, 2, 0),
            1 => (1, 3, lastseg.vaddr, lastseg.offset, lastseg.data.len() as u32, 0, 0, 1, 0),
            2 => (1, 3, l.got_addr, 0, 4 * l.got_entries.len() as u32, 0, 0, 4, 0),
            3 => (8, 3, lastseg.vaddr + lastseg.data.len() as u32, 0, lastseg.memsz - lastseg.data.len() as u32, 0, 0, 1, 0),
            4 => (1, 1, l.stack_size, rng.below(0x400) as u32, 0, 0, 0, 1, 0),
            5 => (3, 0, 0, shstr_off as u32, shstr.len() as u32, 0, 0, 1, 0),
            6 => (2, 0, 0, symtab_off as u32, symtab.len() as u32, index_of[7] as u32, rng.below(8) as u32, 4, 16),
            7 => (3, 0, 0, strtab_off as u32, strtab.len() as u32, 0, 0, 1, 0),
            // decoys whose names only resemble the special ones
            8 => (1, 3, rng.below(image_end as u64 + 1) as u32 & !3, 0, 4 * rng.below(8) as u32, 0, 0, 4, 4),
            9 => (1, 1, 0x2000 + rng.below(0x4000) as u32, 0, 0, 0, 0, 1, 0),
            _ => (1, 0, 0, shstr_off as u32, 1, 0, 0, 1, 0),
        };
        let mut e = vec![];
        for x in [name_off[*id], ty, flags, addr, off, size, link, info, align, ent] {
            be32(&mut e, x);
        }
        sh.extend_from_slice(&e);
    }
    f.extend_from_slice(&sh);
    // program headers
    for (i, p) in l.phdrs.iter().enumerate() {
        let raw = match p.load {
            Some(si) => {
                let s = &l.segs[si];
                [1, s.offset, s.vaddr, s.vaddr, s.data.len() as u32, s.memsz, 5 + (si as u32 & 1), 1]
            }
            None => p.raw,
        };
        for (k, x) in raw.iter().enumerate() {
            f[phoff + 32 * i + 4 * k..phoff + 32 * i + 4 * k + 4].copy_from_slice(&x.to_be_bytes());
        }
    }
    // ELF header
    let mut h = vec![0x7f, b'E', b'L', b'F', 1, 2, 1, 0, 0, 0, 0, 0, 0, 0, 0, 0];
    be16(&mut h, 2);
    be16(&mut h, 46);
    be32(&mut h, 1);
    be32(&mut h, 0);
    be32(&mut h, phoff as u32);
    be32(&mut h, shoff as u32);
    be32(&mut h, 0x0081_0000);
    be16(&mut h, 52);
    be16(&mut h, 32);
    be16(&mut h, phnum as u16);
    be16(&mut h, 40);
    be16(&mut h, nsec as u16);
    be16(&mut h, index_of[5] as u16);
    f[..52].copy_from_slice(&h);
    f
}

pub struct Expect {
    pub dram: Vec<u8>,
    pub er0: u32,
    pub er1: u32,
    pub er2: u32,
    pub er5: u32,
    pub er7: u32,
    pub exit_addr: u32,
    pub image_end: u32,
    pub stack_end: u32,
    pub tcb_end: u32,
    pub words: Vec<Vec<u8>>,
}

fn align4(x: u32) -> u32 {
    (x + 3) & !3
}

/// What the properties C11/C12 say must be true after loading.
pub fn expect(l: &Layout) -> Expect {
    let mut dram = vec![0u8; DRAM_SIZE];
    let off = (BASE - DRAM_LO) as usize;
    for s in &l.segs {
        let a = off + s.vaddr as usize;
        dram[a..a + s.data.len()].copy_from_slice(&s.data);
    }
    for (k, v) in l.got_entries.iter().enumerate() {
        let a = off + l.got_addr as usize + 4 * k;
        dram[a..a + 4].copy_from_slice(&v.wrapping_add(BASE).to_be_bytes());
    }
    let image_end = l.segs.iter().map(|s| s.vaddr + s.memsz).max().unwrap();
    let stack_end = align4(BASE + image_end + l.stack_size);
    let tcb_end = align4(stack_end + 88);
    let mut words: Vec<Vec<u8>> = vec![b"prog.elf".to_vec()];
    // separators used by the generator: the ASCII white space every reading of "whitespace" agrees on
    for w in l.args.split(|c| matches!(c, ' ' | '\t' | '\n' | '\r' | '\u{c}')).filter(|w| !w.is_empty()) {
        words.push(w.as_bytes().to_vec());
    }
    Expect {
        dram,
        er0: words.len() as u32,
        er1: tcb_end,
        er2: BASE,
        er5: l.got_addr + BASE,
        er7: stack_end - 8,
        exit_addr: l.symbols[l.exit_index].1.wrapping_add(BASE),
        image_end,
        stack_end,
        tcb_end,
        words,
    }
}

fn tmp_path(tag: &str) -> String {
    let dir = if std::path::Path::new("/dev/shm").is_dir() { "/dev/shm".to_string() } else { "/verif/target/tmp".to_string() };
    let _ = std::fs::create_dir_all(&dir);
    format!("{}/h8mon-{}-{}.elf", dir, std::process::id(), tag)
}

/// Load one generated file and judge it. `which`: "C11" or "C12". Returns findings (aspect, text).
pub fn load_and_judge(seed: u64, which: &str) -> (Layout, Vec<(String, String)>) {
    let mut rng = Rng::new(seed);
    let mut l = gen_layout(&mut rng);
    let bytes = write_elf(&mut l, &mut rng);
    let path = tmp_path(which);
    std::fs::write(&path, &bytes).expect("write elf");
    let mut cpu = Cpu::new();
    // canaries in the non-DRAM regions
    for (i, b) in cpu.bus.memory.iter_mut().enumerate() {
        *b = (i as u8).wrapping_mul(31) ^ 0x5a;
    }
    for (i, b) in cpu.bus.exception_handling_vector.iter_mut().enumerate() {
        *b = (i as u8) ^ 0xa5;
    }
    let io1 = cpu.bus.io_registrs1.clone();
    let io2 = cpu.bus.io_registrs2.clone();
    let args = l.args.clone();
    let r = catch_unwind(AssertUnwindSafe(|| crate::elf::load(path.clone(), &mut cpu, args)));
    let _ = std::fs::remove_file(&path);
    let mut out = vec![];
    let nonload_last = l.phdrs.last().map(|p| p.load.is_none()).unwrap_or(false);
    let ctx = if nonload_last { ".trailing-non-load-header" } else { "" };
    if r.is_err() {
        let p = take_panic().unwrap_or_default();
        out.push((format!("loader-panic{}", ctx), format!("elf::load panicked at {}:{}: {}", p.file, p.line, p.msg)));
        return (l, out);
    }
    let e = expect(&l);
    if which == "C11" {
        // every byte of DRAM inside the image
        let off = (BASE - DRAM_LO) as usize;
        let img_hi = off + e.image_end as usize;
        let d = &cpu.bus.dram;
        if d.len() != DRAM_SIZE {
            out.push(("dram-size".into(), "DRAM array has an unexpected size".into()));
            return (l, out);
        }
        if d[off..img_hi] != e.dram[off..img_hi] {
            let k = (off..img_hi).find(|k| d[*k] != e.dram[*k]).unwrap();
            let va = (k - off) as u32;
            let in_got = va >= l.got_addr && va < l.got_addr + 4 * l.got_entries.len() as u32;
            let in_file = l.segs.iter().any(|s| va >= s.vaddr && va < s.vaddr + s.data.len() as u32);
            let aspect = if in_got {
                "got-relocation"
            } else if in_file {
                "segment-bytes"
            } else {
                "bss-or-gap-not-zero"
            };
            out.push((format!("{}{}", aspect, ctx), format!("image byte at vaddr {:#x} (address {:06x}) is {:02x}, expected {:02x}", va, DRAM_LO as usize + k, d[k], e.dram[k])));
        }
        // DRAM below the image
        // (DRAM outside the image - below the load base, in the stack / TCB / argument area and above
        // it - is the loader's to use: no property says it stays untouched, so nothing is judged there;
        // argument placement and contents are C12's business and followed through the pointers)
        // DRAM above the image: zero except the argument block [er1 .. er1 + table + strings)
        // the argument block starts where ER1 points (anywhere at or above stack end + 88-byte TCB is
        // legal for C11's purposes; its exact position is C12's business) and extends over the
        // pointer table and the strings
        let er1 = cpu.er[1];
        let arg_start = if er1 >= e.stack_end + 88 && ((er1 - DRAM_LO) as usize) < DRAM_SIZE { er1 } else { e.tcb_end };
        let arg_lo = (arg_start - DRAM_LO) as usize;
        let arg_len: usize = 4 * (e.words.len() + 1) + e.words.iter().map(|w| w.len() + 1).sum::<usize>();
        let _ = (img_hi, arg_lo, arg_len);
        // nothing outside DRAM
        let ram_ok = cpu.bus.memory.iter().enumerate().all(|(i, b)| *b == (i as u8).wrapping_mul(31) ^ 0x5a);
        let vec_ok = cpu.bus.exception_handling_vector.iter().enumerate().all(|(i, b)| *b == (i as u8) ^ 0xa5);
        if !ram_ok || !vec_ok || cpu.bus.io_registrs1 != io1 || cpu.bus.io_registrs2 != io2 {
            out.push(("non-dram-modified".into(), format!("loading changed memory outside DRAM (ram ok {}, vectors ok {})", ram_ok, vec_ok)));
        }
    } else {
        let c = |name: &str, got: u32, want: u32, out: &mut Vec<(String, String)>| {
            if got != want {
                out.push((format!("{}{}", name, ctx), format!("{} = {:#x}, expected {:#x} (image end {:#x}, stack size {:#x})", name, got, want, BASE + e.image_end, l.stack_size)));
            }
        };
        c("er2-entry", cpu.er[2], e.er2, &mut out);
        c("er5-got", cpu.er[5], e.er5, &mut out);
        c("er7-stack-pointer", cpu.er[7], e.er7, &mut out);
        c("er0-argc", cpu.er[0], e.er0, &mut out);
        // ER1: the property fixes the order image < stack < 88-byte TCB < argument block, not the gap
        if cpu.er[1] < e.stack_end + 88 || cpu.er[1] & 3 != 0 || cpu.er[1] >= DRAM_LO + DRAM_SIZE as u32 {
            out.push((format!("er1-argv{}", ctx), format!("ER1 = {:#x}: the argument block must start (4-byte aligned, in DRAM) at or above stack end {:#x} + 88-byte TCB", cpu.er[1], e.stack_end)));
        }
        c("exit-address", cpu.exit_addr, e.exit_addr, &mut out);
        // argv through the pointers the program will actually use
        let argv = cpu.er[1];
        let rd = |a: u32| -> Option<u8> { if a >= DRAM_LO && ((a - DRAM_LO) as usize) < DRAM_SIZE { Some(cpu.bus.dram[(a - DRAM_LO) as usize]) } else { None } };
        let rd32 = |a: u32| -> Option<u32> { Some(((rd(a)? as u32) << 24) | ((rd(a + 1)? as u32) << 16) | ((rd(a + 2)? as u32) << 8) | rd(a + 3)? as u32) };
        let argc = cpu.er[0].min(64);
        let mut regions: Vec<(u32, u32)> = vec![];
        let table_end = argv.wrapping_add(4 * (argc + 1));
        let mut ok = true;
        for i in 0..argc {
            let Some(p) = rd32(argv.wrapping_add(4 * i)) else {
                out.push((format!("argv-table{}", ctx), format!("argv[{}] slot at {:#x} is outside DRAM", i, argv + 4 * i)));
                ok = false;
                break;
            };
            let want = e.words.get(i as usize).cloned().unwrap_or_default();
            let mut got = vec![];
            let mut a = p;
            loop {
                match rd(a) {
                    Some(0) => break,
                    Some(b) if got.len() < 100_000 => {
                        got.push(b);
                        a += 1;
                    }
                    _ => {
                        got.push(0xff);
                        break;
                    }
                }
            }
            if got != want {
                out.push((format!("argv-string{}", ctx), format!("argv[{}] -> {:#x} reads {:?}, expected {:?}", i, p, String::from_utf8_lossy(&got), String::from_utf8_lossy(&want))));
                ok = false;
                break;
            }
            if p < table_end {
                out.push((format!("argv-overlap{}", ctx), format!("argv[{}] string at {:#x} lies inside or below the pointer table (ends {:#x})", i, p, table_end)));
            }
            regions.push((p, p + want.len() as u32 + 1));
        }
        if ok {
            match rd32(argv.wrapping_add(4 * argc)) {
                Some(0) => {}
                other => out.push((format!("argv-sentinel{}", ctx), format!("argv[argc] = {:x?}, expected a null pointer", other))),
            }
            regions.sort_unstable();
            for w in regions.windows(2) {
                if w[0].1 > w[1].0 {
                    out.push((format!("argv-overlap{}", ctx), format!("argument strings overlap: {:x?} {:x?}", w[0], w[1])));
                }
            }
        }
        if cpu.er[7] & 3 != 0 {
            out.push((format!("er7-alignment{}", ctx), format!("ER7 = {:#x} is not 4-byte aligned", cpu.er[7])));
        }
    }
    (l, out)
}

pub fn run(rep: &mut Report, cfg: &Cfg, which: &'static str) {
    let mut rng = cfg.rng(which);
    let n = cfg.share(cfg.n(3_000, 600_000));
    for _ in 0..n {
        let seed = rng.next();
        let (l, findings) = load_and_judge(seed, which);
        rep.evaluations += 1;
        rep.cell("layout", &l.shape);
        rep.cell("segments-nonload", &[l.segs.len() as u64, l.phdrs.len() as u64 - l.segs.len() as u64, l.phdrs.iter().position(|p| p.load.is_none()).map(|p| p as u64 + 1).unwrap_or(0)]);
        rep.cell("got-entries", &[(l.got_entries.len() as u64 + 7) / 8]);
        rep.cell("symbols", &[(l.symbols.len() as u64) / 20, (l.exit_index * 4 / l.symbols.len().max(1)) as u64]);
        rep.count("got_entries_relocated", l.got_entries.len() as u64);
        rep.count("segments_loaded", l.segs.len() as u64);
        for (aspect, text) in findings {
            rep.finding(&format!("elf|{}", aspect), || format!("{} [generated file seed={}: {} segment(s), {} program headers, .got {} entries at {:#x}, stack {:#x}, {} symbols, args {:?}]", text, seed, l.segs.len(), l.phdrs.len(), l.got_entries.len(), l.got_addr, l.stack_size, l.symbols.len(), l.args), || format!("check={} kind=elf seed={}", which, seed));
        }
        rep.sample(|| format!("seed={} segments={:?} phdr kinds={:?} got={}@{:#x} stack={:#x} symbols={} exit@{} args={:?}", seed, l.segs.iter().map(|s| (s.vaddr, s.data.len(), s.memsz)).collect::<Vec<_>>(), l.phdrs.iter().map(|p| if p.load.is_some() { 1 } else { p.raw[0] }).collect::<Vec<_>>(), l.got_entries.len(), l.got_addr, l.stack_size, l.symbols.len(), l.exit_index, l.args));
    }
    if which == "C11" {
        rep.notes.push("C11: seeded ELF32-BE writer (1-4 PT_LOAD segments with arbitrary file offsets, filesz <= memsz, gaps; 0-3 non-load program headers in any position with arbitrary fields; shuffled section headers with decoy names; .got of 0-64 entries anywhere in a segment, values whose sum carries into the top byte); after the real elf::load the whole 2 MiB DRAM image is compared with the layout model (segment bytes, zero bss/gaps, GOT = file value + base exactly once, nothing else) and every non-DRAM region with canaries. Cells: layout shape (#segments, non-load header positions, got placement, argc bucket, stack-size class), GOT size bucket, symbol-table shape.".into());
    } else {
        rep.notes.push("C12: same generator with .stack sizes 0-64 KiB, 1-200 symbols with ___exit at any index (and near-miss names), argument strings over printable ASCII with runs of blanks/tabs, 0-32 words up to 200 bytes; checks ER2, ER5, ER7 (alignment, 8 below the aligned stack end above the highest PT_LOAD extent), ER0/ER1, argv pointers followed through DRAM (byte-exact NUL-terminated copies, null sentinel, no overlap), region order image < stack < TCB(88) < arguments, exit address. Cells as C11.".into());
    }
}

pub fn replay(line: &str) -> (bool, String) {
    let seed: u64 = line.split_whitespace().find_map(|t| t.strip_prefix("seed=")).and_then(|v| v.parse().ok()).unwrap_or(0);
    let which = if line.contains("check=C11") { "C11" } else { "C12" };
    let (l, f) = load_and_judge(seed, which);
    let mut out = format!("{} elf seed={}: {} segments, {} program headers, args {:?}\n", which, seed, l.segs.len(), l.phdrs.len(), l.args);
    for sg in &l.segs {
        out.push_str(&format!("  segment vaddr={:#x} filesz={:#x} memsz={:#x} offset={:#x}\n", sg.vaddr, sg.data.len(), sg.memsz, sg.offset));
    }
    for ph in &l.phdrs {
        out.push_str(&format!("  phdr load={:?} raw={:x?}\n", ph.load, ph.raw));
    }
    out.push_str(&format!("  got {} entries at {:#x}; stack {:#x}; section order {:?}\n", l.got_entries.len(), l.got_addr, l.stack_size, l.section_order));
    for (a, t) in &f {
        out.push_str(&format!("  FINDING {}: {}\n", a, t));
    }
    (!f.is_empty(), out)
}
