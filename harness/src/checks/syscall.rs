//! C14 — the MES system-call trap (TRAPA #0): write and set_handler.
//! The trials run in a child process whose stdout is a pipe, so that the console stream can be
//! compared byte for byte with the concatenation of all buffers, in call order.

use crate::cpu::Cpu;
use crate::mon::{real_interrupt, real_peek, real_poke, real_step, RealOutcome};
use crate::runrig::{mem_digest, RunRig};
use crate::util::{Cfg, Report, Rng};
use std::io::Read;

pub fn utf8_text(rng: &mut Rng, nbytes: usize) -> Vec<u8> {
    let pool: [&str; 18] = ["\0", "\n", "\\", "\r", "\t", "\"", "a", "Z", " ", "~", "\u{e9}", "\u{7ff}", "\u{3042}", "\u{800}", "\u{fffd}", "\u{1F600}", "\u{10ffff}", "\\n"];
    let mut out = Vec::with_capacity(nbytes);
    let style = rng.below(7);
    if style >= 4 && nbytes >= 2 {
        // few newlines: exactly one at a random position, or very sparse ones (long newline-free tails)
        let mut v: Vec<u8> = (0..nbytes).map(|_| 0x20 + rng.below(0x5f) as u8).collect();
        match style {
            4 => v[rng.below(nbytes as u64) as usize] = b'\n',
            5 => v[rng.below((nbytes as u64 / 8).max(1)) as usize] = b'\n',
            _ => {
                for b in v.iter_mut() {
                    if rng.chance(1, 1500) {
                        *b = b'\n';
                    }
                }
                v[0] = b'\n';
            }
        }
        return v;
    }
    while out.len() < nbytes {
        let left = nbytes - out.len();
        let s: String = match style {
            0 => ((0x20 + rng.below(0x5f) as u8) as char).to_string(),
            1 => rng.pick(&pool).to_string(),
            _ => {
                if rng.chance(1, 3) {
                    rng.pick(&pool).to_string()
                } else {
                    ((0x20 + rng.below(0x5f) as u8) as char).to_string()
                }
            }
        };
        if s.len() <= left {
            out.extend_from_slice(s.as_bytes());
        } else {
            out.push(b'.');
        }
    }
    out
}

fn poke32(cpu: &mut Cpu, a: u32, v: u32) {
    for k in 0..4 {
        real_poke(cpu, a + k, (v >> (8 * (3 - k))) as u8);
    }
}

struct Child {
    rep: Report,
    console: Vec<u8>,
}

/// One group of 1-50 calls on one Cpu. `console` accumulates what must appear on stdout.
fn call_group(c: &mut Child, seed: u64) {
    let mut rng = Rng::new(seed);
    let mut rig = RunRig::new();
    let replay = format!("check=C14 kind=syscall seed={}", seed);
    let ncalls = 1 + rng.below(50);
    // code page: TRAPA #0 at a fixed place in RAM or DRAM
    let pc = if rng.chance(1, 2) { 0xffc000 } else { 0x416900 };
    real_poke(&mut rig.cpu, pc, 0x57);
    real_poke(&mut rig.cpu, pc + 1, 0x00);
    for _ in 0..ncalls {
        c.rep.evaluations += 1;
        let kind = rng.below(10);
        let mut er = crate::gen::regs(&mut rng);
        er[7] = if rng.chance(1, 2) { 0xffe800 } else { 0x5f8000 };
        let ccr = rng.u8();
        if kind < 6 {
            // ---- write
            let len = match rng.below(7) {
                0 => 0,
                1 => 1,
                2 => 4096,
                3 => rng.below(16) as usize,
                // beyond typical buffer sizes of the host side (pipes, line buffers, message chunks)
                4 => *rng.pick(&[1023usize, 1024, 1025, 4095, 4097, 8191, 8192, 8193, 12288, 16384, 16385, 20000, 65536, 70001]),
                5 => rng.below(20000) as usize,
                _ => rng.below(4097) as usize,
            };
            let text = utf8_text(&mut rng, len);
            let in_dram = len > 9000 || rng.chance(1, 2);
            let (lo, hi) = if in_dram { (0x440000u32, 0x5fffffu32) } else { (0xffc100u32, 0xffe7ffu32) };
            let buf = match rng.below(4) {
                0 => hi + 1 - len as u32, // ends at the last byte
                1 => lo,
                _ => lo + rng.below((hi - lo - len as u32) as u64) as u32,
            };
            for (i, b) in text.iter().enumerate() {
                real_poke(&mut rig.cpu, buf + i as u32, *b);
            }
            let argp = match rng.below(8) {
                // the 12-byte block flush against the end of a region (DRAM, on-chip RAM, vector area)
                0 => *rng.pick(&[0x5ffff4u32, 0xffff14, 0xf4, 0x400000, 0xffbf20]),
                1..=3 => 0xffe900 + 4 * rng.below(64) as u32,
                _ => 0x430000 + 4 * rng.below(1024) as u32,
            };
            // never on top of the text itself
            let argp = if argp + 12 > buf && argp < buf + len as u32 { if in_dram { 0xffe900 } else { 0x430000 } } else { argp };
            let fd = *rng.pick(&[0u32, 1, 2, 7, 0xffff_ffff]);
            poke32(&mut rig.cpu, argp, fd);
            poke32(&mut rig.cpu, argp + 4, buf);
            poke32(&mut rig.cpu, argp + 8, len as u32);
            er[0] = 104;
            er[1] = argp;
            rig.cpu.er = er;
            rig.cpu.verif_set_ccr(ccr);
            rig.cpu.verif_set_pc(pc);
            let before = mem_digest(&rig.cpu);
            let _ = rig.drain();
            let r = real_step(&mut rig.cpu);
            let msgs: Vec<String> = rig.drain().into_iter().filter(|m| m.starts_with("stdout:")).collect(); // other message kinds are not C14's
            let class = [0u64, in_dram as u64, if len <= 4096 { (len as u64 + 255) / 256 } else { 16 + (len as u64).min(80000) / 4096 }, (buf + len as u32 == hi + 1) as u64];
            c.rep.cell("write-region-len-end", &class);
            match r {
                RealOutcome::Ok(_) => {
                    c.console.extend_from_slice(&text);
                    let want = format!("stdout:{}", String::from_utf8_lossy(&text));
                    if msgs.len() != 1 || msgs[0] != want {
                        c.rep.finding("write|message", || format!("write of {} bytes at {:06x}: messages {:?}, expected exactly [{:?}]", len, buf, msgs.iter().map(|m| m.chars().take(60).collect::<String>()).collect::<Vec<_>>(), want.chars().take(60).collect::<String>()), || replay.clone());
                    }
                    if rig.cpu.verif_pc() != pc + 2 {
                        c.rep.finding("write|pc", || format!("write: PC = {:06x}, expected {:06x}", rig.cpu.verif_pc(), pc + 2), || replay.clone());
                    }
                    if rig.cpu.er != er || rig.cpu.verif_ccr() != ccr {
                        c.rep.finding("write|registers", || format!("write changed registers/CCR: ER {:x?} -> {:x?}, CCR {:02x} -> {:02x}", er, rig.cpu.er, ccr, rig.cpu.verif_ccr()), || replay.clone());
                    }
                    if mem_digest(&rig.cpu) != before {
                        c.rep.finding("write|memory", || format!("write of {} bytes at {:06x} changed guest memory", len, buf), || replay.clone());
                    }
                }
                RealOutcome::Err(e) => c.rep.finding("write|failed", || format!("write of {} bytes at {:06x} (args at {:06x}) failed: {}", len, buf, argp, e.lines().next().unwrap_or("")), || replay.clone()),
                RealOutcome::Panic(p) => c.rep.finding("write|panic", || format!("write of {} bytes at {:06x} panicked: {}", len, buf, p.msg), || replay.clone()),
            }
            c.rep.sample(|| format!("write(fd={:x}, buf={:06x}, len={}) text starts {:?}", fd, buf, len, String::from_utf8_lossy(&text[..len.min(16)])));
        } else if kind < 9 {
            // ---- set_handler
            let vector: u32 = match rng.below(5) {
                0 => *rng.pick(&[0u32, 1, 63, 64, 255, 65, 128, 256, 0xffff_ffff, 0x8000_0001]),
                1 => 64 + rng.below(192) as u32,
                _ => 1 + rng.below(63) as u32,
            };
            let addr = match rng.below(3) {
                0 => *rng.pick(&[0u32, 2, 0xfffffe, 0x416900, 0xffbf20, 0x5ffffe, 0x000100]),
                _ => rng.u32() & 0xfffffe,
            };
            // argument block anywhere in RAM / DRAM, including on top of the MES per-vector save area
            // (H'FFFD10 + 4 x vector) that set_handler itself writes
            let argp = match rng.below(6) {
                0 => 0xfffd10u32.wrapping_add(4 * (vector & 63)).wrapping_sub(4 * rng.below(3) as u32),
                1 => 0xfffd00 + 4 * rng.below(72) as u32,
                2 => 0xffc200 + 4 * rng.below(0xf00) as u32,
                3 => 0x430000 + 4 * rng.below(0x70000) as u32,
                // the 8-byte block flush against the end of a region
                4 => *rng.pick(&[0xffff18u32, 0x5ffff8, 0xf8, 0xffbf20, 0x400000, 0x5ffff4]),
                _ => 0xffe900 + 4 * rng.below(64) as u32,
            };
            poke32(&mut rig.cpu, argp, vector);
            poke32(&mut rig.cpu, argp + 4, addr);
            er[0] = 113;
            er[1] = argp;
            rig.cpu.er = er;
            rig.cpu.verif_set_ccr(ccr);
            rig.cpu.verif_set_pc(pc);
            let vec_before: Vec<u8> = (0..256).map(|a| real_peek(&rig.cpu, a).unwrap_or(0)).collect();
            let before = mem_digest(&rig.cpu);
            let r = real_step(&mut rig.cpu);
            let msgs: Vec<String> = rig.drain().into_iter().filter(|m| m.starts_with("stdout:")).collect(); // other message kinds are not C14's
            let valid = (1..64).contains(&vector);
            c.rep.cell("set_handler-vector-class", &[if valid { vector as u64 } else { 64 + (vector.min(300) as u64 / 64) }, valid as u64]);
            match r {
                RealOutcome::Ok(_) => {
                    if !msgs.is_empty() || rig.cpu.verif_pc() != pc + 2 || rig.cpu.er != er || rig.cpu.verif_ccr() != ccr {
                        c.rep.finding("set_handler|side-effects", || format!("set_handler({}, {:06x}): PC={:06x} registers changed: {}, messages {:?}", vector, addr, rig.cpu.verif_pc(), rig.cpu.er != er, msgs), || replay.clone());
                    }
                    if valid {
                        // a later interrupt of that vector must enter `addr`
                        let mut r2 = rig.cpu.er;
                        r2[7] = 0xffe800;
                        rig.cpu.er = r2;
                        rig.cpu.verif_set_ccr(ccr & 0x7f);
                        let out = real_interrupt(&mut rig.cpu, vector as u8);
                        let entered = rig.cpu.verif_pc();
                        if !matches!(out, RealOutcome::Ok(1)) || entered != (addr & 0xffffff) {
                            c.rep.finding("set_handler|not-installed", || format!("set_handler({}, {:06x}) then interrupt {}: outcome {:?}, PC={:06x}", vector, addr, vector, out, entered), || replay.clone());
                        }
                    } else {
                        let vec_after: Vec<u8> = (0..256).map(|a| real_peek(&rig.cpu, a).unwrap_or(0)).collect();
                        if vec_after != vec_before || mem_digest(&rig.cpu) != before {
                            c.rep.finding("set_handler|invalid-vector-not-ignored", || format!("set_handler({}, {:06x}) changed memory (vector table changed: {})", vector, addr, vec_after != vec_before), || replay.clone());
                        }
                    }
                }
                RealOutcome::Err(e) => c.rep.finding("set_handler|failed", || format!("set_handler({}, {:06x}) failed: {}", vector, addr, e.lines().next().unwrap_or("")), || replay.clone()),
                RealOutcome::Panic(p) => c.rep.finding("set_handler|panic", || format!("set_handler({}, {:06x}) panicked: {}", vector, addr, p.msg), || replay.clone()),
            }
        } else {
            // ---- any other call number must stop execution with an error.  ER1 points to an argument
            // block that is valid for BOTH services, so a number wrongly taken for 104 or 113 shows
            // as a successful call (Ok / message / vector write) instead of failing on garbage
            let id = loop {
                let x = match rng.below(4) {
                    0 => *rng.pick(&[0u32, 1, 103, 105, 112, 114, 0xffff_ffff, 104 << 8, 113 << 8, 104 << 16, 113 << 16, 104 << 24, 0x6800_0000, 0x7100_0000]),
                    // aliases of the two valid numbers in the low byte / low word
                    1 => *rng.pick(&[104u32, 113]) + ((1 + rng.below(0xffff) as u32) << 16),
                    2 => *rng.pick(&[104u32, 113]) + ((1 + rng.below(0xff_ffff) as u32) << 8),
                    _ => rng.u32(),
                };
                if x != 104 && x != 113 {
                    break x;
                }
            };
            let argp = 0xffe900 + 4 * rng.below(32) as u32;
            let buf = 0xffc200u32;
            for (i, b) in b"alias".iter().enumerate() {
                real_poke(&mut rig.cpu, buf + i as u32, *b);
            }
            // as write: {fd=1, buf, len=5}; as set_handler: {vector=1, address=buf}
            poke32(&mut rig.cpu, argp, 1);
            poke32(&mut rig.cpu, argp + 4, buf);
            poke32(&mut rig.cpu, argp + 8, 5);
            er[1] = argp;
            er[0] = id;
            rig.cpu.er = er;
            rig.cpu.verif_set_ccr(ccr);
            rig.cpu.verif_set_pc(pc);
            let r = real_step(&mut rig.cpu);
            let msgs: Vec<String> = rig.drain().into_iter().filter(|m| m.starts_with("stdout:")).collect(); // other message kinds are not C14's
            c.rep.cell("other-call", &[(id % 7) as u64]);
            match r {
                RealOutcome::Err(_) if msgs.is_empty() => {}
                other => c.rep.finding("other-call|not-rejected", || format!("call number {} gave {:?} with messages {:?}", id, other, msgs), || replay.clone()),
            }
        }
    }
}

/// child entry point: `h8mon c14child <seed> <groups> <report-file>`; stdout carries only what
/// the emulator prints.
pub fn child_main(seed: u64, groups: u64, out: &str) {
    let mut c = Child { rep: Report::new("C14"), console: vec![] };
    let mut rng = Rng::new(seed);
    for _ in 0..groups {
        call_group(&mut c, rng.next());
    }
    // flush the emulator's console output
    use std::io::Write;
    let _ = std::io::stdout().flush();
    let mut text = String::new();
    text.push_str(&format!("EVAL\t{}\n", c.rep.evaluations));
    for cell in &c.rep.cells {
        text.push_str(&format!("CELL\t{:x}\n", cell));
    }
    for f in c.rep.findings.values() {
        text.push_str(&format!("FINDING\t{}\t{}\t{}\t{}\n", f.sig, f.detail.replace(['\n', '\t'], " "), f.replay, f.count));
    }
    for s in &c.rep.samples {
        text.push_str(&format!("SAMPLE\t{}\n", s.replace(['\n', '\t'], " ")));
    }
    text.push_str(&format!("CONSOLE_LEN\t{}\nCONSOLE_DIGEST\t{:x}\n", c.console.len(), crate::runrig::digest(&c.console)));
    std::fs::write(out, text).expect("write child report");
    // the expected console stream, for the parent's byte-for-byte comparison
    std::fs::write(format!("{}.console", out), &c.console).expect("write console expectation");
}

pub fn c14(rep: &mut Report, cfg: &Cfg) {
    let mut rng = cfg.rng("C14");
    let rounds = cfg.n(2, 12);
    let groups = cfg.share(cfg.n(160, 6000)) / rounds + 1;
    for round in 0..rounds {
        let seed = rng.next();
        let out = crate::runrig::scratch_path(&format!("c14-{}-{}.txt", cfg.shard, round));
        let exe = std::env::current_exe().expect("current exe");
        let child = std::process::Command::new(exe).args(["c14child", &seed.to_string(), &groups.to_string(), &out]).stdout(std::process::Stdio::piped()).stderr(std::process::Stdio::null()).spawn();
        let Ok(mut child) = child else {
            rep.inconclusive.push("could not spawn the console-capture child".into());
            return;
        };
        let mut stdout = vec![];
        if let Some(mut so) = child.stdout.take() {
            let _ = so.read_to_end(&mut stdout);
        }
        let status = child.wait();
        let report = std::fs::read_to_string(&out).unwrap_or_default();
        let expect = std::fs::read(format!("{}.console", out)).unwrap_or_default();
        let _ = std::fs::remove_file(&out);
        let _ = std::fs::remove_file(format!("{}.console", out));
        if report.is_empty() || !status.map(|s| s.success()).unwrap_or(false) {
            rep.finding("child|crashed", || format!("the child process running the system-call trials (seed {}) died", seed), || format!("check=C14 kind=child seed={} groups={}", seed, groups));
            continue;
        }
        for line in report.lines() {
            let f: Vec<&str> = line.split('\t').collect();
            match f[0] {
                "EVAL" => rep.evaluations += f[1].parse::<u64>().unwrap_or(0),
                "CELL" => {
                    rep.cells.insert(u64::from_str_radix(f[1], 16).unwrap_or(0));
                }
                "FINDING" if f.len() >= 5 => {
                    let (sig, detail, replay) = (f[1].to_string(), f[2].to_string(), f[3].to_string());
                    rep.finding(&sig, || detail, || replay);
                }
                "SAMPLE" => rep.sample(|| f[1].to_string()),
                _ => {}
            }
        }
        rep.count("console_bytes_compared", expect.len() as u64);
        if stdout != expect {
            let i = stdout.iter().zip(expect.iter()).position(|(a, b)| a != b).unwrap_or(stdout.len().min(expect.len()));
            rep.finding(
                "write|console-stream",
                || format!("console stream differs from the concatenation of all written buffers at byte {} ({} bytes on stdout, {} expected)", i, stdout.len(), expect.len()),
                || format!("check=C14 kind=child seed={} groups={}", seed, groups),
            );
        }
        rep.cell("console-round", &[round, (expect.len() as u64).min(1 << 20) / 65536]);
    }
    rep.notes.push("C14: groups of 1-50 TRAPA #0 calls executed by monitored steps in a child process whose stdout is a pipe. write: buffers in on-chip RAM and DRAM (including buffers ending at the last byte of a region), lengths 0-70001 (dense up to 4096, around 1 Ki/4 Ki/8 Ki/16 Ki/64 Ki), few-newline texts with long newline-free tails, valid UTF-8 with NUL/newline/backslash/CR and 2/3/4-byte characters; checks Ok, PC, all registers, CCR, digest of all five memory regions, exactly one stdout:<text> message, and the child's stdout equals the concatenation of all buffers byte for byte. set_handler: vectors 0-255 and beyond, boundary/random addresses; valid vectors are judged through a later injected interrupt, others must leave all memory unchanged. Other call numbers must fail. Cells: (region, length bucket, region end), vector classes, call-number classes, console rounds.".into());
}

pub fn replay(line: &str) -> (bool, String) {
    let seed: u64 = line.split_whitespace().find_map(|t| t.strip_prefix("seed=")).and_then(|v| v.parse().ok()).unwrap_or(0);
    if line.contains("kind=child") {
        return (false, "console-stream comparisons are reproduced by re-running the check with the same VERIF_SEED\n".into());
    }
    let mut c = Child { rep: Report::new("C14"), console: vec![] };
    call_group(&mut c, seed);
    let mut out = String::new();
    for f in c.rep.findings.values() {
        out.push_str(&format!("  FINDING {}: {}\n", f.sig, f.detail));
    }
    (!c.rep.findings.is_empty(), out)
}
