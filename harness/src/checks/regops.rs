//! C02 (arithmetic) and C03 (logic / shift / rotate): register-operand instructions checked in
//! lock step with the reference over exhaustive / stratified operand spaces.

use super::common::{drain_strays, fid, record, Judge};
use crate::gen::{self, decode_words, fill, Fields, Group};
use crate::mon::{Case, Lock};
use crate::refmodel::decode::{Insn, Mn, Opd, Sz};
use crate::refmodel::exec::{wrr, Outcome};
use crate::util::{Cfg, Report, Rng};

/// size of the register view read as source / destination
fn view_sizes(i: &Insn) -> (Sz, Sz) {
    match i.mn {
        Mn::Mulxu | Mn::Divxu => {
            if i.sz == Sz::B {
                (Sz::B, Sz::W)
            } else {
                (Sz::W, Sz::L)
            }
        }
        _ => (i.sz, i.sz),
    }
}

pub struct Runner<'a> {
    pub lock: Lock,
    pub rep: &'a mut Report,
    pub check: &'static str,
    pub judge: Judge,
    pub rng: Rng,
    pub pc_pool: Vec<u32>,
}

impl<'a> Runner<'a> {
    pub fn new(rep: &'a mut Report, check: &'static str, cfg: &Cfg) -> Runner<'a> {
        let mut rng = cfg.rng(check);
        let mut pc_pool = vec![0xffbf20, 0xffff00, 0x400000, 0x5ffff0, 0xffc000, 0x416900, 0x000010, 0x0000f0];
        for _ in 0..10 {
            let dram = rng.chance(1, 2);
            pc_pool.push(gen::code_addr(&mut rng, dram));
        }
        let mut lock = Lock::new(Some(0));
        lock.full_every = 4096;
        Runner { lock, rep, check, judge: if check == "C02" { Judge::FULL.only(super::common::is_arith) } else { Judge::FULL.only(super::common::is_logic) }, rng, pc_pool }
    }

    /// One register-operand case: pattern + register fields + operand values + CCR.
    /// `same_ok`: when the source and destination fields name the same register the destination
    /// value wins (the case is still executed and judged).
    pub fn reg_case(&mut self, pat: &str, mut f: Fields, dval: u32, sval: u32, ccr: u8) {
        let rng = &mut self.rng;
        let probe = decode_words(&fill(pat, &f));
        if let Opd::Imm(_) = probe.src {
            f.imm = sval;
        }
        let ws = fill(pat, &f);
        let insn = decode_words(&ws);
        let pc = *rng.pick(&self.pc_pool) | rng.chance(1, 10) as u32; // bit 0 of PC is ignored by fetch
        let mut c = Case::words(pc, &ws);
        c.er = gen::regs(rng);
        c.ccr = ccr;
        let (ssz, dsz) = view_sizes(&insn);
        // source first, destination last: on overlap the destination value is exact
        if let Opd::R(sf) = insn.src {
            wrr(&mut c.er, sf, ssz, sval);
        }
        if let Opd::R(df) = insn.dst {
            wrr(&mut c.er, df, dsz, dval);
        }
        gen::maybe_bus(&mut self.rng, &mut c);
        gen::maybe_io(&mut self.rng, &mut c);
        let obs = self.lock.run(&c);
        let judged = record(self.rep, self.check, &c, &obs, &self.judge);
        if judged {
            if let Outcome::Ok(_) = obs.step.outcome {
                let form = insn.form();
                let id = fid(&form);
                let sfield = match insn.src {
                    Opd::R(s) => s as u64,
                    _ => 16,
                };
                let dfield = match insn.dst {
                    Opd::R(d) => d as u64,
                    _ => 16,
                };
                self.rep.cell("form-regs", &[id, sfield, dfield]);
                self.rep.cell("form-flags", &[id, (obs.model_after.ccr & 0x2f) as u64]);
                self.rep.count(&format!("ok:{}", form), 1);
                self.rep.sample(|| format!("{} -> CCR {:02x}->{:02x}; {}", form, c.ccr, obs.model_after.ccr, c.to_line()));
            }
        }
    }

    pub fn finish(mut self) {
        self.lock.finish();
        drain_strays(self.rep, self.check, &mut self.lock, &self.judge);
    }
}

/// 256-value stratified set of 16-bit operands: every carry-chain boundary of bits 3/7/11/15,
/// walking ones / zeros, +-1 neighbours, seeded random fill.
pub fn strat16(rng: &mut Rng, n: usize) -> Vec<u32> {
    let mut v: Vec<u32> = vec![];
    fn add(v: &mut Vec<u32>, x: u32) {
        let x = x & 0xffff;
        if !v.contains(&x) {
            v.push(x);
        }
    }
    macro_rules! push {
        ($x:expr) => {
            add(&mut v, $x)
        };
    }
    for b in [0u32, 1, 2, 7, 8, 0xf, 0x10, 0x7f, 0x80, 0xff, 0x100, 0x7ff, 0x800, 0xfff, 0x1000, 0x7fff, 0x8000, 0xffff, 0xfffe, 0x8001, 0x7ffe, 0xf000, 0x0ff0, 0xff00, 0x00f0] {
        push!(b);
    }
    for k in 0..16 {
        push!(1 << k);
        push!(!(1u32 << k));
        push!((1 << k) - 1);
        push!((1u32 << k).wrapping_add(1));
    }
    while v.len() < n {
        push!(rng.u32());
    }
    v.truncate(n);
    v
}

pub fn strat32(rng: &mut Rng, n: usize) -> Vec<u32> {
    let mut v: Vec<u32> = vec![];
    fn add(v: &mut Vec<u32>, x: u32) {
        if !v.contains(&x) {
            v.push(x);
        }
    }
    macro_rules! push {
        ($x:expr) => {
            add(&mut v, $x)
        };
    }
    for b in [
        0u32, 1, 2, 0xff, 0x100, 0xffff, 0x10000, 0x00ff_ffff, 0x0100_0000, 0x07ff_ffff, 0x0800_0000, 0x0fff_ffff, 0x1000_0000, 0x7fff_ffff, 0x8000_0000, 0xffff_ffff,
        0xffff_fffe, 0x8000_0001, 0x7fff_fffe, 0xf000_0000, 0xffff_0000, 0x0000_8000, 0x0000_7fff,
    ] {
        push!(b);
    }
    for k in 0..32 {
        push!(1 << k);
        push!(!(1u32 << k));
        push!((1u32 << k).wrapping_sub(1));
    }
    while v.len() < n {
        push!(rng.u32());
    }
    v.truncate(n);
    v
}

fn is_two_operand(i: &Insn) -> bool {
    !matches!(i.src, Opd::None)
}

pub fn run(rep: &mut Report, cfg: &Cfg, group: Group, check: &'static str) {
    let mut r = Runner::new(rep, check, cfg);
    let forms = gen::forms_of(group);
    let mut work: u64 = 0; // global work-item counter for sharding
    let s16 = strat16(&mut cfg.rng("strat16"), 256);
    let s16small = strat16(&mut cfg.rng("strat16"), 96);
    let s32 = strat32(&mut cfg.rng("strat32"), if cfg.tier_thorough { 320 } else { 160 });
    let frng = &mut cfg.rng("fields");
    let wide16: usize = if std::env::var("VERIF_EXHAUSTIVE16").is_ok() { 65536 } else { 256 };

    for pat in &forms {
        let probe = decode_words(&fill(pat, &Fields { s: 1, d: 2, x: 1, trap: 1, ..Default::default() }));
        let two = is_two_operand(&probe);
        let (ssz, dsz) = view_sizes(&probe);
        let width = if two { ssz } else { dsz };
        let form = probe.form();
        let shard_fields = |frng: &mut Rng| {
            let mut f = Fields::random(frng);
            // keep source and destination registers apart here (same-register cases: section 2)
            if matches!(probe.src, Opd::R(_)) {
                while (f.s & 7) == (f.d & 7) || (f.x & 7) == (f.d & 7) {
                    f = Fields::random(frng);
                }
            }
            f
        };
        // a valid division (divisor != 0, quotient fits) from arbitrary raw material
        let valid_div = |q: u32, dv: u32, rem: u32| -> (u32, u32) {
            let m = ssz.mask();
            let dv = if dv & m == 0 { 1 } else { dv & m };
            let q = q & m;
            (q * dv + rem % dv, dv)
        };

        // ---- 1. operand-space sweep
        if probe.mn == Mn::Divxu {
            let (divs, quots): (Vec<u32>, Vec<u32>) = if ssz == Sz::B {
                ((1..256).collect(), (0..256).collect())
            } else {
                (s16small.iter().copied().filter(|x| *x != 0).collect(), s16small.clone())
            };
            let rems = if cfg.tier_thorough { 6 } else { 2 };
            for dv in &divs {
                for q in &quots {
                    work += 1;
                    if !cfg.mine(work) {
                        continue;
                    }
                    for k in 0..rems {
                        let rem = match k {
                            0 => 0,
                            1 => dv - 1,
                            _ => r.rng.below(*dv as u64) as u32,
                        };
                        let f = shard_fields(frng);
                        let ccr = r.rng.u8();
                        r.reg_case(pat, f, q * dv + rem, *dv, ccr);
                    }
                }
            }
            if ssz == Sz::B {
                r.rep.exhaustive.push(format!("{}: all divisors x all quotients (valid divisions), boundary remainders", form));
            }
        } else if width == Sz::B {
            let srcs: Vec<u32> = if two { (0..256).collect() } else { vec![0] };
            for d in 0..256u32 {
                for s in &srcs {
                    work += 1;
                    if !cfg.mine(work) {
                        continue;
                    }
                    for cin in 0..2u8 {
                        let f = shard_fields(frng);
                        let ccr = (r.rng.u8() & 0xfe) | cin;
                        // MULXU.B reads only the low byte of the 16-bit destination: randomise the rest
                        let dval = if probe.mn == Mn::Mulxu { d | ((r.rng.u8() as u32) << 8) } else { d };
                        r.reg_case(pat, f, dval, *s, ccr);
                    }
                }
            }
            r.rep.exhaustive.push(format!("{}: all 8-bit operand values x carry-in", form));
        } else if width == Sz::W {
            if !two {
                for d in 0..65536u32 {
                    work += 1;
                    if !cfg.mine(work) {
                        continue;
                    }
                    for cin in 0..2u8 {
                        let f = shard_fields(frng);
                        let ccr = (r.rng.u8() & 0xfe) | cin;
                        r.reg_case(pat, f, d, 0, ccr);
                    }
                }
                r.rep.exhaustive.push(format!("{}: all 16-bit operand values x carry-in", form));
            } else if cfg.tier_thorough {
                // all 65 536 values of one operand x stratified set of the other, both orders
                let other: Vec<u32> = if wide16 == 65536 { (0..65536).collect() } else { s16.iter().take(wide16).copied().collect() };
                for a in 0..65536u32 {
                    work += 1;
                    if !cfg.mine(work) {
                        continue;
                    }
                    for b in &other {
                        let hi = if probe.mn == Mn::Mulxu { (r.rng.u16() as u32) << 16 } else { 0 };
                        let f = shard_fields(frng);
                        let ccr = r.rng.u8();
                        r.reg_case(pat, f, a | hi, *b, ccr);
                        if wide16 != 65536 {
                            let f = shard_fields(frng);
                            let ccr = r.rng.u8();
                            r.reg_case(pat, f, *b | hi, a, ccr);
                        }
                    }
                }
                if wide16 == 65536 {
                    r.rep.exhaustive.push(format!("{}: all 2^32 pairs of 16-bit operands", form));
                }
            } else {
                for a in &s16 {
                    for b in &s16 {
                        work += 1;
                        if !cfg.mine(work) {
                            continue;
                        }
                        let hi = if probe.mn == Mn::Mulxu { (r.rng.u16() as u32) << 16 } else { 0 };
                        let f = shard_fields(frng);
                        let ccr = r.rng.u8();
                        r.reg_case(pat, f, *a | hi, *b, ccr);
                    }
                }
            }
        } else {
            // 32-bit: carry-chain boundary values, all pairs, plus random
            let srcs: Vec<u32> = if two { s32.clone() } else { vec![0] };
            for a in &s32 {
                for b in &srcs {
                    work += 1;
                    if !cfg.mine(work) {
                        continue;
                    }
                    for cin in 0..2u8 {
                        let f = shard_fields(frng);
                        let ccr = (r.rng.u8() & 0xfe) | cin;
                        r.reg_case(pat, f, *a, *b, ccr);
                    }
                }
            }
            let nrand = cfg.share(cfg.n(20_000, 3_000_000));
            for _ in 0..nrand {
                let f = shard_fields(frng);
                let (a, b, ccr) = (gen::data(&mut r.rng, Sz::L), gen::data(&mut r.rng, Sz::L), r.rng.u8());
                r.reg_case(pat, f, a, b, ccr);
            }
        }

        // ---- 1b. every constant named in the emulator's source (and its neighbours) as either operand
        if width != Sz::B && probe.mn != Mn::Divxu {
            let dict = crate::util::source_dictionary();
            for v in dict.iter() {
                work += 1;
                if !cfg.mine(work) {
                    continue;
                }
                for dlt in [0u32, 1, 0xffff_ffff] {
                    let x = v.wrapping_add(dlt) & width.mask();
                    let f = shard_fields(frng);
                    let (other, ccr) = (gen::data(&mut r.rng, width), r.rng.u8());
                    r.reg_case(pat, f, x, other, ccr);
                    if two {
                        let f = shard_fields(frng);
                        let ccr = r.rng.u8();
                        r.reg_case(pat, f, other, x, ccr);
                    }
                }
                // ... and as the RESULT: operands from which sums, differences, logic combinations,
                // complements and one-bit shifts / rotations produce the constant
                let m = width.mask();
                let msb = (m >> 1) + 1;
                let v = *v & m;
                let b = gen::data(&mut r.rng, width);
                let pairs: [(u32, u32); 13] = [
                    (v.wrapping_sub(b) & m, b),
                    (v.wrapping_add(b) & m, b),
                    (v, 0),
                    (v, m),
                    (!v & m, b),
                    (v.wrapping_neg() & m, b),
                    (v >> 1, b),
                    ((v >> 1) | msb, b),
                    ((v << 1) & m, b),
                    (((v << 1) | 1) & m, b),
                    (((v << 1) | (v >> (width.bits() - 1))) & m, b),
                    ((v >> 1) | ((v & 1) << (width.bits() - 1)), b),
                    (v ^ b, b),
                ];
                for (d, s) in pairs {
                    let f = shard_fields(frng);
                    let ccr = r.rng.u8();
                    r.reg_case(pat, f, d, s, ccr);
                }
            }
            r.rep.count("source_dictionary_values", dict.len() as u64);
        }

        // ---- 2. every register number in every field (incl. same register), pool data
        let pool_d = gen::data_pool(dsz);
        let pool_s = gen::data_pool(ssz);
        let nregs_d = if dsz == Sz::L { 8 } else { 16 };
        let nregs_s = match probe.src {
            Opd::R(_) => {
                if ssz == Sz::L {
                    8
                } else {
                    16
                }
            }
            _ => 1,
        };
        for d in 0..nregs_d {
            for s in 0..nregs_s {
                work += 1;
                if !cfg.mine(work) {
                    continue;
                }
                for k in 0..6 {
                    let mut f = Fields::random(frng);
                    f.d = d;
                    f.s = s;
                    f.x = s;
                    let mut dv = pool_d[(k * 5 + d as usize) % pool_d.len()];
                    let mut sv = pool_s[(k * 3 + s as usize) % pool_s.len()];
                    if probe.mn == Mn::Divxu {
                        let (a, b) = valid_div(dv, sv, r.rng.u32());
                        dv = a;
                        sv = b;
                    }
                    let ccr = r.rng.u8();
                    r.reg_case(pat, f, dv, sv, ccr);
                }
            }
        }

        // ---- 3. all 256 initial CCR values on pool data
        for ccr in 0..256u32 {
            work += 1;
            if !cfg.mine(work) {
                continue;
            }
            for k in 0..4usize {
                let f = shard_fields(frng);
                let mut dv = pool_d[(ccr as usize + k) % pool_d.len()];
                let mut sv = pool_s[(ccr as usize / 3 + 2 * k) % pool_s.len()];
                if probe.mn == Mn::Divxu {
                    let (a, b) = valid_div(dv, sv, r.rng.u32());
                    dv = a;
                    sv = b;
                }
                r.reg_case(pat, f, dv, sv, ccr as u8);
            }
        }
    }
    r.finish();
    let judge = if check == "C02" { Judge::FULL.only(super::common::is_arith) } else { Judge::FULL.only(super::common::is_logic) };
    super::progwalk::run(rep, cfg, check, &judge, &[group], 300, 60_000);
}
