//! C16 (I/O ports: latch + direction + pins, announced outputs) and C17 (8-bit timer 0).

use crate::cpu::Cpu;
use crate::util::{take_panic, Cfg, Report, Rng};
use std::collections::HashSet;
use std::panic::{catch_unwind, AssertUnwindSafe};
use std::sync::mpsc::{channel, Receiver};

// ---------------------------------------------------------------------------------------------
// C16

#[derive(Clone, Copy, Debug, PartialEq, Eq, Hash)]
pub enum PortOp {
    Ddr(u8, u8),
    Dr(u8, u8),
    Ext(u8, u8),
}
impl PortOp {
    fn text(&self) -> String {
        match self {
            PortOp::Ddr(p, v) => format!("ddr{:x}={:02x}", p, v),
            PortOp::Dr(p, v) => format!("dr{:x}={:02x}", p, v),
            PortOp::Ext(p, v) => format!("ext{:x}={:02x}", p, v),
        }
    }
    fn parse(s: &str) -> Option<PortOp> {
        let (a, v) = s.split_once('=')?;
        let v = u8::from_str_radix(v, 16).ok()?;
        if let Some(p) = a.strip_prefix("ddr") {
            Some(PortOp::Ddr(u8::from_str_radix(p, 16).ok()?, v))
        } else if let Some(p) = a.strip_prefix("dr") {
            Some(PortOp::Dr(u8::from_str_radix(p, 16).ok()?, v))
        } else if let Some(p) = a.strip_prefix("ext") {
            Some(PortOp::Ext(u8::from_str_radix(p, 16).ok()?, v))
        } else {
            None
        }
    }
}

#[derive(Clone, Copy, Default, PartialEq, Eq, Hash, Debug)]
struct PortModel {
    ddr: u8,
    latch: u8,
    ext: u8,
}
impl PortModel {
    fn dr_read(&self) -> u8 {
        (self.latch & self.ddr) | (self.ext & !self.ddr)
    }
    fn out(&self) -> u8 {
        self.latch & self.ddr
    }
}

pub struct PortRig {
    cpu: Cpu,
    rx: Receiver<String>,
    model: [PortModel; 11],
    announced: [u8; 11],
    last_ts: u64,
    pub ops: u64,
    pub msgs: u64,
}

const DDR0: u32 = 0xfee000;
const DR0: u32 = 0xffffd0;

impl PortRig {
    pub fn new() -> PortRig {
        let mut cpu = Cpu::new();
        let (tx, rx) = channel();
        cpu.bus.message_tx = Some(tx);
        PortRig { cpu, rx, model: [PortModel::default(); 11], announced: [0; 11], last_ts: 0, ops: 0, msgs: 0 }
    }

    /// Apply one operation through the public bus API to the real machine and to the model, then
    /// check. Returns a violation (aspect, text) if any.
    pub fn apply(&mut self, op: PortOp, check_all: bool) -> Option<(String, String)> {
        self.ops += 1;
        let port = match op {
            PortOp::Ddr(p, _) | PortOp::Dr(p, _) | PortOp::Ext(p, _) => p,
        };
        let pi = (port - 1) as usize;
        let r = catch_unwind(AssertUnwindSafe(|| match op {
            PortOp::Ddr(p, v) => self.cpu.bus.write(DDR0 + p as u32 - 1, v).map_err(|e| e.to_string()),
            PortOp::Dr(p, v) => self.cpu.bus.write(DR0 + p as u32 - 1, v).map_err(|e| e.to_string()),
            PortOp::Ext(p, v) => {
                self.cpu.bus.write_port(p, v);
                Ok(())
            }
        }));
        match r {
            Err(_) => {
                let p = take_panic().unwrap_or_default();
                return Some(("panic".into(), format!("{} panicked: {}", op.text(), p.msg)));
            }
            Ok(Err(e)) => return Some(("bus-error".into(), format!("{} failed: {}", op.text(), e))),
            Ok(Ok(())) => {}
        }
        match op {
            PortOp::Ddr(_, v) => self.model[pi].ddr = v,
            PortOp::Dr(_, v) => self.model[pi].latch = v,
            PortOp::Ext(_, v) => self.model[pi].ext = v,
        }
        // messages
        while let Ok(m) = self.rx.try_recv() {
            self.msgs += 1;
            let f: Vec<&str> = m.split(':').collect();
            if f[0] != "ioport" {
                continue; // message kinds other than ioport: are not C16's
            }
            if f.len() != 4 {
                return Some(("message-format".into(), format!("unexpected message '{}' after {}", m, op.text())));
            }
            let (Ok(p), Ok(v), Ok(ts)) = (u8::from_str_radix(f[1], 16), u8::from_str_radix(f[2], 16), f[3].parse::<u64>()) else {
                return Some(("message-format".into(), format!("unparsable message '{}'", m)));
            };
            if !(1..=11).contains(&p) {
                return Some(("message-port".into(), format!("message '{}' names a non-existent port", m)));
            }
            if ts < self.last_ts {
                return Some(("timestamp-decreases".into(), format!("message '{}' has time stamp {} after {}", m, ts, self.last_ts)));
            }
            if ts > self.cpu.bus.cpu_state_sum as u64 {
                return Some(("timestamp-in-future".into(), format!("message '{}' has time stamp {} but the state count is {}", m, ts, self.cpu.bus.cpu_state_sum)));
            }
            self.last_ts = ts;
            self.announced[(p - 1) as usize] = v;
        }
        // checks
        let ports: Vec<usize> = if check_all { (0..11).collect() } else { vec![pi] };
        for q in ports {
            let m = self.model[q];
            let dr = self.cpu.bus.read(DR0 + q as u32).unwrap_or(0);
            if dr != m.dr_read() {
                let aspect = if q == pi { "dr-read" } else { "cross-port.dr-read" };
                return Some((aspect.into(), format!("after {}: port {:x} DR reads {:02x}, model {:02x} (ddr={:02x} latch={:02x} pins={:02x})", op.text(), q + 1, dr, m.dr_read(), m.ddr, m.latch, m.ext)));
            }
            if self.announced[q] != m.out() {
                let aspect = if q == pi { "announced-output" } else { "cross-port.announced-output" };
                return Some((aspect.into(), format!("after {}: port {:x} last announced output {:02x}, driven output is {:02x} (ddr={:02x} latch={:02x})", op.text(), q + 1, self.announced[q], m.out(), m.ddr, m.latch)));
            }
        }
        None
    }

    /// API-level reset of one port: pins 0, all outputs, latch 0, all inputs.
    pub fn reset_port(&mut self, p: u8) -> Option<(String, String)> {
        for op in [PortOp::Ext(p, 0), PortOp::Ddr(p, 0xff), PortOp::Dr(p, 0x00), PortOp::Ddr(p, 0x00)] {
            // during reset only the real machine's API is driven; the model is forced afterwards
            let _ = self.apply_unchecked(op);
        }
        self.model[(p - 1) as usize] = PortModel::default();
        // what the real machine last announced for this port is whatever it said; after the reset
        // prefix the driven output is 0 and a correct implementation has announced 0
        None
    }
    fn apply_unchecked(&mut self, op: PortOp) -> bool {
        let r = catch_unwind(AssertUnwindSafe(|| match op {
            PortOp::Ddr(p, v) => self.cpu.bus.write(DDR0 + p as u32 - 1, v).is_ok(),
            PortOp::Dr(p, v) => self.cpu.bus.write(DR0 + p as u32 - 1, v).is_ok(),
            PortOp::Ext(p, v) => {
                self.cpu.bus.write_port(p, v);
                true
            }
        }));
        while let Ok(m) = self.rx.try_recv() {
            let f: Vec<&str> = m.split(':').collect();
            if f.len() == 4 {
                if let (Ok(p), Ok(v), Ok(ts)) = (u8::from_str_radix(f[1], 16), u8::from_str_radix(f[2], 16), f[3].parse::<u64>()) {
                    if (1..=11).contains(&p) {
                        self.announced[(p - 1) as usize] = v;
                    }
                    self.last_ts = self.last_ts.max(ts);
                }
            }
        }
        r.unwrap_or(false)
    }
    pub fn advance(&mut self, states: usize) {
        self.cpu.bus.cpu_state_sum += states;
    }
}

const VALS: [u8; 6] = [0x00, 0xff, 0x0f, 0xf0, 0xaa, 0x55];

fn shape(seq: &[PortOp]) -> u64 {
    // op-kind sequence (values dropped)
    let mut h = 1u64;
    for o in seq {
        h = h * 4
            + match o {
                PortOp::Ddr(..) => 1,
                PortOp::Dr(..) => 2,
                PortOp::Ext(..) => 3,
            };
    }
    h
}

fn report_port(rep: &mut Report, seq: &[PortOp], v: (String, String)) {
    // scenario signature: the shortest description of what kind of history fails
    let kinds: Vec<&str> = seq
        .iter()
        .map(|o| match o {
            PortOp::Ddr(..) => "ddr",
            PortOp::Dr(..) => "dr",
            PortOp::Ext(..) => "ext",
        })
        .collect();
    let _ = kinds;
    let sig = format!("port|{}", v.0);
    let text: Vec<String> = seq.iter().map(|o| o.text()).collect();
    rep.finding(&sig, || format!("{}; history: {}", v.1, text.join(" ")), || format!("check=C16 kind=ports ops={}", text.join(",")));
}

pub fn run_port_history(ops: &[PortOp]) -> Option<(usize, (String, String))> {
    let mut rig = PortRig::new();
    for (i, op) in ops.iter().enumerate() {
        rig.advance(3);
        if let Some(v) = rig.apply(*op, true) {
            return Some((i, v));
        }
    }
    None
}

pub fn c16(rep: &mut Report, cfg: &Cfg) {
    let mut rng = cfg.rng("C16");
    let depth = if cfg.tier_thorough { 6 } else { 4 };
    let mut states: HashSet<PortModel> = HashSet::new();
    let mut rig = PortRig::new();
    let mut work = 0u64;
    // ---- bounded-exhaustive per port
    let nops = 18usize;
    let total = (nops as u64).pow(depth as u32);
    let mut found_for_sig: HashSet<String> = HashSet::new();
    for port in 1..=11u8 {
        // thorough: full depth on a seed-chosen port and on port 1, depth-5 on the others
        let d = depth;
        let tot = (nops as u64).pow(d as u32);
        for code in 0..tot {
            work += 1;
            if !cfg.mine(work) {
                continue;
            }
            let mut seq = Vec::with_capacity(d);
            let mut c = code;
            for _ in 0..d {
                let k = (c % nops as u64) as usize;
                c /= nops as u64;
                let v = VALS[k % 6];
                seq.push(match k / 6 {
                    0 => PortOp::Ddr(port, v),
                    1 => PortOp::Dr(port, v),
                    _ => PortOp::Ext(port, v),
                });
            }
            rig.reset_port(port);
            // a correct implementation is now at {ddr 0, latch 0, pins 0, announced 0}; verify through the API
            let dr = rig.cpu.bus.read(DR0 + port as u32 - 1).unwrap_or(0xee);
            if dr != 0 || rig.announced[(port - 1) as usize] != 0 {
                report_port(rep, &[PortOp::Ext(port, 0), PortOp::Ddr(port, 0xff), PortOp::Dr(port, 0), PortOp::Ddr(port, 0)], ("reset-prefix".into(), format!("after the reset prefix port {:x} DR reads {:02x}, announced {:02x}", port, dr, rig.announced[(port - 1) as usize])));
                rig.announced[(port - 1) as usize] = 0;
            }
            rep.evaluations += 1;
            for (i, op) in seq.iter().enumerate() {
                rig.advance(1 + (code as usize % 7));
                let res = rig.apply(*op, i + 1 == seq.len());
                states.insert(rig.model[(port - 1) as usize]);
                if let Some(v) = res {
                    if found_for_sig.insert(v.0.clone()) || rep.findings.len() < 4 {
                        report_port(rep, &seq[..=i], v);
                    } else {
                        rep.count("violating-histories", 1);
                        let sig = format!("port|{}", v.0);
                        if let Some(f) = rep.findings.get_mut(&sig) {
                            f.count += 1;
                        }
                    }
                    break;
                }
            }
            rep.cell("port-shape", &[port as u64, shape(&seq)]);
        }
        rep.exhaustive.push(format!("port {:x}: all {} histories of length {} over {{DDR, DR, pins}} x 6 values", port, tot, d));
    }
    let _ = total;
    // ---- all port pairs, depth 3 (interference)
    for p in 1..=11u8 {
        for q in 1..=11u8 {
            if p == q {
                continue;
            }
            work += 1;
            if !cfg.mine(work) {
                continue;
            }
            for code in 0..(36u64.pow(3)) {
                if !cfg.tier_thorough && code % 5 != (p as u64 + q as u64) % 5 {
                    continue;
                }
                let mut c = code;
                let mut seq = vec![];
                for _ in 0..3 {
                    let k = (c % 36) as usize;
                    c /= 36;
                    let port = if k >= 18 { q } else { p };
                    let k = k % 18;
                    let v = VALS[k % 6];
                    seq.push(match k / 6 {
                        0 => PortOp::Ddr(port, v),
                        1 => PortOp::Dr(port, v),
                        _ => PortOp::Ext(port, v),
                    });
                }
                rig.reset_port(p);
                rig.reset_port(q);
                rig.announced[(p - 1) as usize] = 0;
                rig.announced[(q - 1) as usize] = 0;
                rep.evaluations += 1;
                for (i, op) in seq.iter().enumerate() {
                    rig.advance(2);
                    if let Some(v) = rig.apply(*op, true) {
                        report_port(rep, &seq[..=i], v);
                        break;
                    }
                }
                rep.cell("pair", &[p as u64, q as u64]);
            }
        }
    }
    // ---- long random histories over all ports
    let nhist = cfg.share(cfg.n(60, 12_000));
    for _ in 0..nhist {
        let mut rig = PortRig::new();
        // long-running systems: some histories start just below 2^31, 2^32 or 2^33 states
        match rng.below(6) {
            0 => rig.advance(0x7fff_f000usize),
            1 => rig.advance(0xffff_f000usize),
            2 => rig.advance(0x1_ffff_f000usize),
            _ => {}
        }
        let len = 1000;
        let mut seq = vec![];
        rep.evaluations += 1;
        for _ in 0..len {
            let port = 1 + rng.below(11) as u8;
            let v = if rng.chance(3, 4) { *rng.pick(&VALS) } else { rng.u8() };
            let op = match rng.below(3) {
                0 => PortOp::Ddr(port, v),
                1 => PortOp::Dr(port, v),
                _ => PortOp::Ext(port, v),
            };
            seq.push(op);
            rig.advance(rng.below(500) as usize);
            rep.cell("state-sum-magnitude", &[(64 - (rig.cpu.bus.cpu_state_sum as u64).leading_zeros()) as u64 / 4]);
            let res = rig.apply(op, true);
            states.insert(rig.model[(port - 1) as usize]);
            if let Some(v) = res {
                // shrink to the operations on the ports involved is left to the replay; report the tail
                let tail: Vec<PortOp> = seq.iter().copied().filter(|o| matches!(o, PortOp::Ddr(p, _) | PortOp::Dr(p, _) | PortOp::Ext(p, _) if *p == port)).collect();
                let tail = if run_port_history(&tail).is_some() { tail } else { seq.clone() };
                report_port(rep, &tail, v);
                break;
            }
        }
        rep.cell("random-history", &[seq.len() as u64 / 100]);
    }
    for s in &states {
        rep.cell("model-state", &[s.ddr as u64, s.latch as u64, s.ext as u64]);
    }
    rep.count("port_operations", rig.ops);
    rep.count("ioport_messages_seen", rig.msgs);
    rep.sample(|| "history: ext1=00 ddr1=ff dr1=00 ddr1=00 | dr1=aa ddr1=0f ext1=55 dr1=f0 (checked after every operation: DR read-back, last announced output, time stamps)".to_string());
    rep.notes.push("C16: per port, every history of {write DDR, write DR, set pins} x {00,FF,0F,F0,AA,55} up to the tier's depth (4 quick, 6 thorough), each replayed from an API-level reset prefix; all ordered port pairs at depth 3; random histories of length 1000 over all ports with advancing state counts. After every operation: DR read-back = (latch AND ddr) OR (pins AND NOT ddr), last announced ioport value = latch AND ddr, time stamps non-decreasing and not in the future, other ports unaffected. Cells: (port, op-kind sequence), port pairs, distinct model states (ddr, latch, pins).".into());
}

// ---------------------------------------------------------------------------------------------
// C17

pub const TCR: u32 = 0xffff80;
pub const TCSR: u32 = 0xffff82;
pub const TCORA: u32 = 0xffff84;
pub const TCORB: u32 = 0xffff86;
pub const TCNT: u32 = 0xffff88;

#[derive(Clone, Copy, Debug, PartialEq, Eq)]
pub struct TimerRegs {
    pub tcr: u8,
    pub tcsr: u8,
    pub tcora: u8,
    pub tcorb: u8,
    pub tcnt: u8,
}

pub fn divisor(tcr: u8) -> Option<u32> {
    match tcr & 7 {
        0 => Some(0),
        1 => Some(8),
        2 => Some(64),
        3 => Some(8192),
        _ => None,
    }
}

/// one count of TCNT per the property's statement; returns raised vectors
pub fn tick(r: &mut TimerRegs, irqs: &mut Vec<u8>) {
    let (mut t, ovf) = r.tcnt.overflowing_add(1);
    let clr = (r.tcr >> 3) & 3;
    if t == r.tcora {
        r.tcsr |= 0x40;
        if clr == 1 {
            t = 0;
        }
        if r.tcr & 0x40 != 0 {
            irqs.push(36);
        }
    }
    if t == r.tcorb {
        r.tcsr |= 0x80;
        if clr == 2 {
            t = 0;
        }
        if r.tcr & 0x80 != 0 {
            irqs.push(37);
        }
    }
    if ovf {
        r.tcsr |= 0x20;
        if r.tcr & 0x20 != 0 {
            irqs.push(39);
        }
    }
    r.tcnt = t;
}

#[derive(Clone, Debug)]
pub enum TOp {
    Elapse(u8),
    Write(u32, u8),
    /// the same charge `count` times in a row (long horizons, compactly)
    Repeat(u64, u8),
}
impl TOp {
    fn text(&self) -> String {
        match self {
            TOp::Elapse(s) => format!("e{}", s),
            TOp::Repeat(n, s) => format!("r{}x{}", n, s),
            TOp::Write(a, v) if (0xffff80..=0xffff9f).contains(a) => format!("w{:x}={:02x}", a & 0xff, v),
            TOp::Write(a, v) => format!("W{:x}={:02x}", a, v),
        }
    }
    fn parse(s: &str) -> Option<TOp> {
        if let Some(n) = s.strip_prefix('e') {
            return Some(TOp::Elapse(n.parse().ok()?));
        }
        if let Some(x) = s.strip_prefix('r') {
            let (n, c) = x.split_once('x')?;
            return Some(TOp::Repeat(n.parse().ok()?, c.parse().ok()?));
        }
        if let Some(x) = s.strip_prefix('W') {
            let (a, v) = x.split_once('=')?;
            return Some(TOp::Write(u32::from_str_radix(a, 16).ok()?, u8::from_str_radix(v, 16).ok()?));
        }
        let (a, v) = s.strip_prefix('w')?.split_once('=')?;
        Some(TOp::Write(0xffff00 | u32::from_str_radix(a, 16).ok()?, u8::from_str_radix(v, 16).ok()?))
    }
}

pub struct TimerRig {
    pub cpu: Cpu,
    pub model: TimerRegs,
    /// residues (accumulated states modulo the divisor) still consistent with all observations
    pub cand: Vec<u32>,
    pub judged: bool,
    pub events: u64,
}

fn real_regs(cpu: &Cpu) -> TimerRegs {
    let rd = |a| cpu.bus.read(a).unwrap_or(0);
    TimerRegs { tcr: rd(TCR), tcsr: rd(TCSR), tcora: rd(TCORA), tcorb: rd(TCORB), tcnt: rd(TCNT) }
}

impl TimerRig {
    pub fn new() -> TimerRig {
        let cpu = Cpu::new();
        TimerRig { model: real_regs(&cpu), cpu, cand: vec![], judged: true, events: 0 }
    }

    /// returns Some((aspect, text)) on violation
    pub fn apply(&mut self, op: &TOp) -> Option<(String, String)> {
        match op {
            TOp::Repeat(n, s) => {
                for i in 0..*n {
                    if let Some((a, t)) = self.apply(&TOp::Elapse(*s)) {
                        return Some((a, format!("charge {} of {} x {} states ({} states into the repetition): {}", i + 1, n, s, (i + 1) * *s as u64, t)));
                    }
                }
                None
            }
            TOp::Write(a, v) => {
                let r = catch_unwind(AssertUnwindSafe(|| self.cpu.bus.write(*a, *v).is_ok()));
                match r {
                    Ok(true) => {}
                    Ok(false) => return Some(("bus-error".into(), format!("write {:06x} failed", a))),
                    Err(_) => {
                        let p = take_panic().unwrap_or_default();
                        return Some(("panic".into(), format!("write {:06x}={:02x} panicked: {}", a, v, p.msg)));
                    }
                }
                match *a {
                    TCR => {
                        let old_div = if self.judged { divisor(self.model.tcr) } else { None };
                        self.model.tcr = *v;
                        match divisor(*v) {
                            Some(0) => {
                                self.cand.clear();
                                self.judged = true;
                            }
                            Some(d) if old_div == Some(d) && !self.cand.is_empty() => {
                                // the same clock stays selected (only enable / clear bits change): the
                                // count goes on with the phase it has - this is not a clock change
                                self.judged = true;
                            }
                            Some(d) => {
                                // any phase is acceptable after a (re)selection of the clock
                                self.cand = (0..d).collect();
                                self.judged = true;
                            }
                            None => self.judged = false, // clock selects 4-7 are not judged
                        }
                    }
                    TCSR => self.model.tcsr = *v,
                    TCORA => self.model.tcora = *v,
                    TCORB => self.model.tcorb = *v,
                    TCNT => self.model.tcnt = *v,
                    _ => {}
                }
                // registers are plain storage: read-back
                let rr = real_regs(&self.cpu);
                if self.judged && rr != self.model {
                    let t = format!("after write {:06x}={:02x}: registers {:?}, model {:?}", a, v, rr, self.model);
                    self.model = rr;
                    return Some(("register-write".into(), t));
                }
                None
            }
            TOp::Elapse(s) => {
                let r = catch_unwind(AssertUnwindSafe(|| self.cpu.verif_update_modules(*s).map_err(|e| e.to_string())));
                let irqs_real = {
                    let mut v = self.cpu.verif_pending();
                    self.cpu.verif_clear_pending();
                    v.sort_unstable();
                    v
                };
                match r {
                    Ok(Ok(())) => {}
                    Ok(Err(e)) => return Some(("update-error".into(), format!("update_modules({}) failed: {}", s, e))),
                    Err(_) => {
                        let p = take_panic().unwrap_or_default();
                        return Some(("panic".into(), format!("update_modules({}) panicked: {}", s, p.msg)));
                    }
                }
                let rr = real_regs(&self.cpu);
                if !self.judged {
                    self.model = rr;
                    return None;
                }
                let d = divisor(self.model.tcr).unwrap_or(0);
                if d == 0 {
                    // no clock selected: nothing may move
                    if rr != self.model || !irqs_real.is_empty() {
                        let t = format!("no clock selected but {} elapsed states changed the timer: {:?} -> {:?}, interrupts {:?}", s, self.model, rr, irqs_real);
                        self.model = rr;
                        return Some(("counts-while-stopped".into(), t));
                    }
                    return None;
                }
                // group the candidate residues by the number of ticks they predict
                let mut survivors: Vec<u32> = vec![];
                let mut tried: Vec<(u32, bool)> = vec![];
                let mut predicted_any: Option<(TimerRegs, Vec<u8>)> = None;
                for &res in &self.cand {
                    let tot = res + *s as u32;
                    let k = tot / d;
                    let ok = match tried.iter().find(|(kk, _)| *kk == k) {
                        Some((_, ok)) => *ok,
                        None => {
                            let mut m = self.model;
                            let mut irqs = vec![];
                            for _ in 0..k {
                                tick(&mut m, &mut irqs);
                            }
                            irqs.sort_unstable();
                            let ok = m == rr && irqs == irqs_real;
                            if predicted_any.is_none() || ok {
                                predicted_any = Some((m, irqs));
                            }
                            tried.push((k, ok));
                            self.events += k as u64;
                            ok
                        }
                    };
                    if ok {
                        survivors.push(tot % d);
                    }
                }
                if survivors.is_empty() {
                    let ks: Vec<u32> = tried.iter().map(|(k, _)| *k).collect();
                    let (pm, pi) = predicted_any.unwrap_or((self.model, vec![]));
                    let t = format!(
                        "{} states at /{}: timer went {:?} -> {:?} with interrupts {:?}; every phase still consistent predicts {:?} tick(s), e.g. {:?} with interrupts {:?}",
                        s, d, self.model, rr, irqs_real, ks, pm, pi
                    );
                    // classify
                    let aspect = if rr.tcnt != pm.tcnt {
                        "tick-count"
                    } else if rr.tcsr != pm.tcsr {
                        "flags"
                    } else {
                        "interrupts"
                    };
                    self.model = rr;
                    self.cand = (0..d).collect();
                    return Some((aspect.into(), t));
                }
                survivors.sort_unstable();
                survivors.dedup();
                self.cand = survivors;
                // all survivors predict the observed registers
                self.model = rr;
                None
            }
        }
    }
}

pub fn run_timer_history(ops: &[TOp]) -> Option<(usize, (String, String))> {
    let mut rig = TimerRig::new();
    for (i, op) in ops.iter().enumerate() {
        if let Some(v) = rig.apply(op) {
            return Some((i, v));
        }
    }
    None
}

fn gen_timer_history(rng: &mut Rng, len: usize, tcr0: u8) -> Vec<TOp> {
    let mut ops = vec![];
    let pick_tcor = |rng: &mut Rng| -> u8 {
        match rng.below(4) {
            0 => *rng.pick(&[1u8, 2, 0x7f, 0x80, 0xfe, 0xff]),
            _ => 1 + rng.below(255) as u8,
        }
    };
    let mut a = pick_tcor(rng);
    let mut b = pick_tcor(rng);
    while b == a {
        b = pick_tcor(rng);
    }
    ops.push(TOp::Write(TCORA, a));
    ops.push(TOp::Write(TCORB, b));
    ops.push(TOp::Write(TCNT, if rng.chance(1, 2) { 0 } else { rng.u8() }));
    ops.push(TOp::Write(TCSR, 0));
    ops.push(TOp::Write(TCR, tcr0));
    let mut tcr = tcr0;
    let mode = rng.below(4);
    for _ in 0..len {
        match rng.below(40) {
            0 => {
                // change the clock / enables; valid selects mostly
                tcr = if rng.chance(1, 8) { rng.u8() } else { (rng.u8() & 0xf8) | rng.below(4) as u8 };
                if (tcr >> 3) & 3 == 3 {
                    tcr &= !0x08;
                }
                ops.push(TOp::Write(TCR, tcr));
            }
            1 => {
                ops.push(TOp::Write(TCNT, rng.u8()));
            }
            2 => {
                a = pick_tcor(rng);
                while a == b {
                    a = pick_tcor(rng);
                }
                ops.push(TOp::Write(TCORA, a));
            }
            3 => {
                b = pick_tcor(rng);
                while a == b {
                    b = pick_tcor(rng);
                }
                ops.push(TOp::Write(TCORB, b));
            }
            4 | 5 => {
                // the CPU clears flags (never sets them)
                ops.push(TOp::Write(TCSR, 0));
            }
            6 | 7 => {
                // a store to an unrelated plain location (other I/O bytes, RAM) must not disturb the timer
                let a = match rng.below(4) {
                    0 => 0xfee00b + rng.below(0xf5) as u32,
                    1 => 0xffff20 + rng.below(0x60) as u32,
                    2 => 0xffffa0 + rng.below(0x30) as u32,
                    _ => 0xffc000 + rng.below(0x3000) as u32,
                };
                ops.push(TOp::Write(a, rng.u8()));
            }
            _ => {
                let s = match mode {
                    0 => 1 + rng.below(255) as u8,
                    1 => 1 + rng.below(12) as u8,
                    2 => *rng.pick(&[1u8, 2, 7, 8, 9, 63, 64, 65, 255, 254, 128]),
                    _ => {
                        if rng.chance(1, 2) {
                            255
                        } else {
                            1 + rng.below(255) as u8
                        }
                    }
                };
                ops.push(TOp::Elapse(s));
            }
        }
    }
    ops
}

fn report_timer(rep: &mut Report, ops: &[TOp], upto: usize, v: (String, String)) {
    let text: Vec<String> = ops[..=upto].iter().map(|o| o.text()).collect();
    // keep the witness short: the last 40 operations are shown, the replay holds everything
    let shown = if text.len() > 40 { format!("... {}", text[text.len() - 40..].join(" ")) } else { text.join(" ") };
    rep.finding(&format!("timer|{}", v.0), || format!("{}; history: {}", v.1, shown), || format!("check=C17 kind=timer ops={}", text.join(",")));
}

pub fn c17(rep: &mut Report, cfg: &Cfg) {
    let mut rng = cfg.rng("C17");
    let mut work = 0u64;
    // ---- 1. all 256 TCR values x seeded histories
    let per_tcr = cfg.n(3, 200);
    for tcr in 0..256u32 {
        work += 1;
        if !cfg.mine(work) {
            continue;
        }
        for _ in 0..per_tcr {
            let tcr0 = tcr as u8;
            // the property excludes clear sources with TCORA == TCORB or zero; clear-on-input-capture (3) never clears
            let len = 100 + rng.below(if cfg.tier_thorough { 3000 } else { 600 }) as usize;
            let ops = gen_timer_history(&mut rng, len, tcr0);
            let mut rig = TimerRig::new();
            rep.evaluations += 1;
            for (i, op) in ops.iter().enumerate() {
                let pre = rig.model;
                let res = rig.apply(op);
                if let TOp::Elapse(_) = op {
                    if rig.judged {
                        let d = divisor(pre.tcr).unwrap_or(0);
                        let ev = ((rig.model.tcsr & !pre.tcsr) >> 5) as u64;
                        rep.cell("div-clr-en-event", &[d as u64, ((pre.tcr >> 3) & 3) as u64, (pre.tcr >> 5) as u64, ev]);
                    }
                }
                if let TOp::Write(TCR, v) = op {
                    rep.cell("divisor-change", &[divisor(pre.tcr).unwrap_or(9) as u64, divisor(*v).unwrap_or(9) as u64]);
                }
                if let Some(v) = res {
                    report_timer(rep, &ops, i, v);
                    break;
                }
            }
            rep.count("tick_events_simulated", rig.events);
        }
    }
    rep.exhaustive.push("all 256 TCR values as the initial configuration".into());
    // ---- 2. clock changes between all divisor pairs at adversarial residues
    for d1 in 1..=3u8 {
        for d2 in 0..=3u8 {
            for k in 0..cfg.n(40, 600) {
                work += 1;
                if !cfg.mine(work) {
                    continue;
                }
                let div1 = divisor(d1).unwrap();
                let mut ops = vec![TOp::Write(TCORA, 0x70), TOp::Write(TCORB, 0xe0), TOp::Write(TCNT, rng.u8()), TOp::Write(TCSR, 0), TOp::Write(TCR, d1 | (rng.u8() & 0xe0))];
                // elapse close to a full period of the first divisor (residue div1-1, div1/2, random)
                let mut e = match k % 4 {
                    0 => div1 - 1,
                    1 => div1 / 2,
                    2 => div1 + div1 - 1,
                    _ => rng.below(2 * div1 as u64) as u32,
                };
                while e > 0 {
                    let s = e.min(255).min(1 + rng.below(255) as u32);
                    ops.push(TOp::Elapse(s as u8));
                    e -= s;
                }
                ops.push(TOp::Write(TCR, d2 | (rng.u8() & 0xe0)));
                for _ in 0..40 {
                    ops.push(TOp::Elapse(1 + rng.below(if k % 2 == 0 { 16 } else { 255 }) as u8));
                }
                rep.evaluations += 1;
                if let Some((i, v)) = run_timer_history(&ops) {
                    report_timer(rep, &ops, i, v);
                }
                rep.cell("switch-residue", &[d1 as u64, d2 as u64, k % 4]);
            }
        }
    }
    // ---- 3. metamorphic: the same elapsed time split differently ends in the same state
    for _ in 0..cfg.share(cfg.n(400, 120_000)) {
        let tcr = (rng.u8() & 0xf8 & !0x18) | (rng.below(3) as u8 + 1) | if rng.chance(1, 2) { 0x08 } else { 0 };
        let total = 1 + rng.below(40_000) as u32;
        let (a, b) = (1 + rng.below(255) as u8, 1 + rng.below(255) as u8);
        if a == b {
            continue;
        }
        let setup = vec![TOp::Write(TCORA, a), TOp::Write(TCORB, b), TOp::Write(TCNT, rng.u8()), TOp::Write(TCSR, 0), TOp::Write(TCR, tcr)];
        let mut finals = vec![];
        let mut parts = vec![];
        for variant in 0..3 {
            let mut rig = TimerRig::new();
            let mut text: Vec<String> = setup.iter().map(|o| o.text()).collect();
            for op in &setup {
                rig.apply(op);
            }
            let mut left = total;
            let mut irqs: Vec<u8> = vec![];
            while left > 0 {
                let s = match variant {
                    0 => left.min(255),
                    1 => left.min(1 + rng.below(7) as u32),
                    _ => left.min(1 + rng.below(255) as u32),
                };
                let _ = catch_unwind(AssertUnwindSafe(|| rig.cpu.verif_update_modules(s as u8)));
                irqs.extend(rig.cpu.verif_pending());
                rig.cpu.verif_clear_pending();
                text.push(format!("e{}", s));
                left -= s;
            }
            irqs.sort_unstable();
            finals.push((real_regs(&rig.cpu), irqs));
            parts.push(text);
        }
        rep.evaluations += 1;
        rep.cell("metamorphic", &[divisor(tcr).unwrap_or(0) as u64, ((tcr >> 3) & 3) as u64, (total / 4096) as u64]);
        if finals[0] != finals[1] || finals[0] != finals[2] {
            let which = if finals[0] != finals[1] { 1 } else { 2 };
            rep.finding(
                "timer|partition-dependence",
                || format!("{} elapsed states at TCR={:02x}: one slice sequence ends in {:?}, another in {:?}", total, tcr, finals[0], finals[which]),
                || format!("check=C17 kind=timer ops={}", parts[which].join(",")),
            );
        }
    }
    // ---- 4. long horizons: one clock selection kept for more than 2^32 (thorough: 2^33) elapsed states,
    // every charge judged (elapsed-state bookkeeping must not lose counts when a counter width is passed)
    let lh_shards = if cfg.tier_thorough { cfg.nshards } else { 3.min(cfg.nshards) };
    if cfg.shard < lh_shards {
        let sel = 3 - (cfg.shard % 3) as u8; // /8192, /64, /8
        let tcr = sel | if cfg.shard % 2 == 0 { 0x08 } else { 0 } | (rng.u8() & 0xe0);
        let goal: u64 = if cfg.tier_thorough { (1 << 33) + (1 << 22) } else { (1 << 32) + (1 << 22) };
        let s: u8 = if cfg.shard < 3 { 255 } else { 1 + 254u8.min(128 + rng.below(127) as u8) };
        let mut ops = vec![TOp::Write(TCORA, 1 + rng.below(254) as u8), TOp::Write(TCORB, 0xff), TOp::Write(TCNT, rng.u8()), TOp::Write(TCSR, 0), TOp::Write(TCR, tcr)];
        // in three chunks with rewrites of the same settings in between (these do not restart the clock)
        let n = goal / s as u64 + 1;
        ops.push(TOp::Repeat(n / 2, s));
        ops.push(TOp::Write(TCSR, 0));
        ops.push(TOp::Repeat(n / 2, s));
        ops.push(TOp::Write(TCR, tcr));
        ops.push(TOp::Repeat(4096, s));
        rep.evaluations += 1;
        let mut rig = TimerRig::new();
        for (i, op) in ops.iter().enumerate() {
            if let Some(v) = rig.apply(op) {
                report_timer(rep, &ops, i, (format!("long-horizon.{}", v.0), v.1));
                break;
            }
        }
        rep.count("tick_events_simulated", rig.events);
        rep.count("long_horizon_states_elapsed", n * s as u64);
        rep.cell("long-horizon", &[divisor(tcr).unwrap_or(0) as u64, ((tcr >> 3) & 3) as u64, (64 - goal.leading_zeros()) as u64]);
    }
    rep.sample(|| {
        let ops = gen_timer_history(&mut Rng::new(5), 12, 0x49);
        format!("history: {}", ops.iter().map(|o| o.text()).collect::<Vec<_>>().join(" "))
    });
    rep.notes.push("C17: histories of state charges (1-255) interleaved with CPU writes to TCR/TCNT/TCORA/TCORB/TCSR for all 256 initial TCR values; tick-by-tick reference with phase inference (set of residues consistent with all observations since the clock was selected; an empty set = tick lost, gained or bunched), flags and interrupt multisets compared after every slice; clock changes between all divisor pairs at adversarial residues; metamorphic comparison of three partitions of the same elapsed time on the real timer. Long horizons: one clock selection kept for more than 2^32 (thorough 2^33) elapsed states per divisor, every charge judged. Clock selects 4-7 are not judged. Cells: (divisor, clear source, enable bits, flags newly set), (old divisor, new divisor), (divisor pair, residue class), metamorphic (divisor, clear, time bucket).".into());
}

pub fn replay_ports(line: &str) -> (bool, String) {
    let ops: Vec<PortOp> = line.split_whitespace().find_map(|t| t.strip_prefix("ops=")).unwrap_or("").split(',').filter_map(PortOp::parse).collect();
    match run_port_history(&ops) {
        Some((i, v)) => (true, format!("port history violates at operation {} ({}): {} [{}]\n", i, ops[i].text(), v.1, v.0)),
        None => (false, format!("port history of {} operations: no violation\n", ops.len())),
    }
}
pub fn replay_timer(line: &str) -> (bool, String) {
    let ops: Vec<TOp> = line.split_whitespace().find_map(|t| t.strip_prefix("ops=")).unwrap_or("").split(',').filter_map(TOp::parse).collect();
    match run_timer_history(&ops) {
        Some((i, v)) => (true, format!("timer history violates at operation {} ({}): {} [{}]\n", i, ops[i].text(), v.1, v.0)),
        None => (false, format!("timer history of {} operations: no violation\n", ops.len())),
    }
}
