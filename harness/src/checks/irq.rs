//! C10 — interrupts are delivered exactly once, only when unmasked, between instructions.
//! Event-log checker over generated guest programs with injected request schedules.

use crate::asm::Asm;
use crate::cpu::Cpu;
use crate::gen::{self, fill, Fields, Group};
use crate::mon::{real_peek, real_poke};
use crate::runrig::{run_with_hook, shared, RunEnd, RunRig};
use crate::util::{take_panic, Cfg, Report, Rng};
use std::collections::HashMap;
use std::panic::{catch_unwind, AssertUnwindSafe};

const CODE: u32 = 0x420000;
const LOG_CAP: u32 = 8192;

pub struct IrqProg {
    pub image: Vec<u8>,
    pub labels: HashMap<String, u32>,
    pub uses_trap: bool,
    pub desc: String,
    /// contents of plain I/O register locations before the program starts (configuration noise)
    pub io: Vec<(u32, u8)>,
}

fn reg_op(rng: &mut Rng) -> Vec<u16> {
    loop {
        let (g, pat) = *rng.pick(gen::FORMS);
        if !matches!(g, Group::Arith | Group::Logic) || pat.starts_with("51") || pat.starts_with("53") {
            continue;
        }
        let mut f = Fields::random(rng);
        f.d = (f.d & 8) | (f.d & 7) % 5;
        f.s = (f.s & 8) | (f.s & 7) % 5;
        f.x %= 5;
        return fill(pat, &f);
    }
}

pub fn gen_irq_prog(rng: &mut Rng) -> IrqProg {
    let mut a = Asm::new(CODE);
    let uses_trap = rng.chance(1, 2);
    a.label("start");
    for r in 0..5u8 {
        a.mov_l_imm(r, rng.u32());
    }
    let nloops = 1 + rng.below(3);
    for li in 0..nloops {
        let l = a.fresh("loop");
        a.mov_w_imm(5, 20 + rng.below(200) as u16);
        a.label(&l);
        for _ in 0..(3 + rng.below(10)) {
            let ws = reg_op(rng);
            a.words(&ws);
            if rng.chance(1, 4) {
                // flag-dependent skip: a corrupted CCR changes the result
                let s = a.fresh("skip");
                a.bcc8(rng.u8() & 15, &s);
                let ws = reg_op(rng);
                a.words(&ws);
                a.label(&s);
            }
        }
        // read-modify-write of the main data area
        a.mov_l_from_label(6, &format!("data{}", li % 3));
        a.add_l_rr((rng.below(5)) as u8, 6);
        a.mov_l_to_label(6, &format!("data{}", li % 3));
        if uses_trap && rng.chance(1, 2) {
            a.trapa(1);
        }
        if rng.chance(1, 2) {
            a.bsr16("sub");
        }
        a.dec_w(5);
        a.bcc16(6, &l);
    }
    // quiescent tail with interrupts enabled, then results and exit
    a.mov_w_imm(5, 400);
    a.label("tail");
    a.dec_w(5);
    a.bcc8(6, "tail");
    for r in 0..5u8 {
        a.mov_l_to_label(r, &format!("result{}", r));
    }
    a.jmp_label("exit");
    a.label("sub");
    for _ in 0..3 {
        let ws = reg_op(rng);
        a.words(&ws);
    }
    a.rts();
    // critical section entered through TRAPA #1 (runs with I set)
    a.label("crit");
    for _ in 0..(4 + rng.below(12)) {
        let ws = reg_op(rng);
        a.words(&ws);
    }
    a.rte();
    // one stub per vector; variants of the common handler body
    for v in 1..64u32 {
        a.label(&format!("stub{}", v));
        a.push_l(0);
        a.push_l(1);
        a.mov_b_imm(9, v as u8);
        a.jmp_label(&format!("common{}", v % 3));
    }
    for k in 0..3 {
        a.label(&format!("common{}", k));
        a.mov_l_from_label(0, "logptr");
        a.mov_b_to_ind(9, 0);
        a.adds1(0);
        a.mov_l_to_label(0, "logptr");
        for _ in 0..(k * 3) {
            // extra work inside the handler (clobbers only ER0/ER1, which are saved)
            a.add_l_rr(0, 1);
        }
        a.mov_w_from_label(1, "count");
        a.inc_w(1);
        a.mov_w_to_label(1, "count");
        a.pop_l(1);
        a.pop_l(0);
        a.rte();
    }
    a.align(4);
    a.label("logptr");
    a.l_label("log");
    a.label("count");
    a.l(0);
    for k in 0..3 {
        a.label(&format!("data{}", k));
        a.l(rng.u32());
    }
    for r in 0..5 {
        a.label(&format!("result{}", r));
        a.l(0);
    }
    a.label("exit");
    a.w(0x5470);
    a.align(4);
    a.label("log");
    let (mut image, labels) = a.finish();
    image.resize(image.len() + LOG_CAP as usize, 0);
    let io = match rng.below(6) {
        0 | 1 => gen::io_noise(rng),
        2 => {
            // every plain I/O register location at once: all ones or random
            let ones = rng.chance(1, 2);
            (0xfee000u32..=0xfee0ff).chain(0xffff20..=0xffffe9).filter(|a| !crate::refmodel::mem::is_special_io(*a) && !(0xfee020..=0xfee026).contains(a)).map(|a| (a, if ones { 0xff } else { rng.u8() })).collect()
        }
        _ => vec![],
    };
    IrqProg { image, labels, uses_trap, desc: format!("loops={} trap-critical-sections={} io-noise={} locations {:x?}", nloops, uses_trap, io.len(), &io[..io.len().min(3)]), io }
}

pub fn load_prog(cpu: &mut Cpu, p: &IrqProg, sp: u32) {
    for (i, b) in p.image.iter().enumerate() {
        real_poke(cpu, CODE + i as u32, *b);
    }
    for v in 1..64u32 {
        let t = if v == 9 && p.uses_trap { p.labels["crit"] } else { p.labels[&format!("stub{}", v)] };
        let t = t | 0x5a00_0000; // MES keeps a JMP opcode in the top byte of the entry
        for k in 0..4 {
            real_poke(cpu, 4 * v + k, (t >> (8 * (3 - k))) as u8);
        }
    }
    for (a, v) in &p.io {
        real_poke(cpu, *a, *v);
    }
    cpu.er = [0; 8];
    cpu.er[7] = sp;
    cpu.er[2] = p.labels["start"];
    cpu.exit_addr = p.labels["exit"];
    cpu.verif_set_pc(p.labels["start"]);
    cpu.verif_set_ccr(0);
}

#[derive(Clone, Debug, PartialEq, Eq)]
pub struct Final {
    pub er: [u32; 8],
    pub ccr: u8,
    pub main_data: Vec<u8>,
    pub log: Vec<u8>,
    pub count: u16,
    pub boundaries: u64,
    pub end: String,
}

fn read_final(cpu: &Cpu, p: &IrqProg, boundaries: u64, end: String) -> Final {
    let rd = |a: u32| real_peek(cpu, a).unwrap_or(0);
    let d0 = p.labels["data0"];
    let main_data: Vec<u8> = (0..(3 + 5) * 4).map(|k| rd(d0 + k)).collect();
    let lp = p.labels["logptr"];
    let logptr = ((rd(lp) as u32) << 24) | ((rd(lp + 1) as u32) << 16) | ((rd(lp + 2) as u32) << 8) | rd(lp + 3) as u32;
    let log0 = p.labels["log"];
    let n = logptr.wrapping_sub(log0).min(LOG_CAP);
    let log: Vec<u8> = (0..n).map(|k| rd(log0 + k)).collect();
    let c = p.labels["count"];
    Final { er: cpu.er, ccr: cpu.verif_ccr(), main_data, log, count: ((rd(c) as u16) << 8) | rd(c + 1) as u16, boundaries, end }
}

/// schedule: boundary index -> vectors requested at that boundary
pub type Schedule = HashMap<u64, Vec<u8>>;

#[derive(Default, Debug, Clone, PartialEq, Eq)]
pub struct EventLog {
    /// (boundary, vector) of every entry, in order
    pub enters: Vec<(u64, u8)>,
    pub requests: u64,
}

/// Driver A: harness loop `try_interrupt(); step()` with exact observation in between.
pub fn drive_a(p: &IrqProg, sched: &Schedule, sp: u32, findings: &mut Vec<(String, String)>, cells: &mut Vec<[u64; 5]>) -> (Final, EventLog) {
    let mut cpu = Cpu::new();
    let _ = cpu.verif_init_registers();
    load_prog(&mut cpu, p, sp);
    let mut log = EventLog::default();
    let mut i: u64 = 0;
    let limit = 400_000u64;
    let stub_of: HashMap<u32, u8> = (1..64u32).map(|v| (if v == 9 && p.uses_trap { p.labels["crit"] } else { p.labels[&format!("stub{}", v)] }, v as u8)).collect();
    let mut end = "ok".to_string();
    let in_handler = |pc: u32| pc >= p.labels["stub1"] && pc < p.labels["logptr"];
    loop {
        if let Some(vs) = sched.get(&i) {
            for v in vs {
                cpu.verif_request_interrupt(*v);
                log.requests += 1;
                cells.push([*v as u64, (cpu.verif_ccr() >> 7) as u64, 9, vs.len().min(4) as u64, in_handler(cpu.verif_pc()) as u64]);
            }
        }
        let (pc0, ccr0, sp0) = (cpu.verif_pc(), cpu.verif_ccr(), cpu.er[7]);
        let er0 = cpu.er;
        let pend0 = cpu.verif_pending();
        let r = catch_unwind(AssertUnwindSafe(|| cpu.verif_try_interrupt().map_err(|e| e.to_string())));
        match r {
            Ok(Ok(())) => {}
            Ok(Err(e)) => {
                end = format!("err at interrupt acceptance: {}", e);
                break;
            }
            Err(_) => {
                let pn = take_panic().unwrap_or_default();
                end = format!("panic at interrupt acceptance: {}", pn.msg);
                break;
            }
        }
        let pend1 = cpu.verif_pending();
        let entered = pend0.len() as i64 - pend1.len() as i64;
        let changed = cpu.verif_pc() != pc0 || cpu.er[7] != sp0;
        if entered != 0 || changed {
            // which request left the queue?
            let mut rest = pend0.clone();
            for v in &pend1 {
                if let Some(k) = rest.iter().position(|x| x == v) {
                    rest.remove(k);
                }
            }
            let v_popped = rest.first().copied();
            let v_vector = stub_of.get(&cpu.verif_pc()).copied();
            if entered != 1 || rest.len() != 1 {
                findings.push(("queue-accounting".into(), format!("boundary {}: pending {:?} -> {:?} in one acceptance (PC {:06x}->{:06x})", i, pend0, pend1, pc0, cpu.verif_pc())));
            }
            if ccr0 & 0x80 != 0 {
                findings.push(("accepted-while-masked".into(), format!("boundary {}: request {:?} entered although CCR={:02x} has I set (PC {:06x})", i, v_popped, ccr0, pc0)));
            }
            if let Some(v) = v_popped {
                log.enters.push((i, v));
                cells.push([v as u64, 9, (ccr0 >> 7) as u64, 0, in_handler(pc0) as u64]);
                if v_vector != Some(v) {
                    findings.push(("redirected".into(), format!("boundary {}: request {} entered at PC={:06x}, which is vector {:?}'s handler", i, v, cpu.verif_pc(), v_vector)));
                }
            }
            // frame (R5)
            let spn = cpu.er[7];
            let f: Vec<u8> = (0..4).map(|k| real_peek(&cpu, (spn & 0xffffff) + k).unwrap_or(0)).collect();
            let want = [ccr0, (pc0 >> 16) as u8, (pc0 >> 8) as u8, pc0 as u8];
            if spn != sp0.wrapping_sub(4) || f != want || cpu.verif_ccr() & 0x80 == 0 || (cpu.verif_ccr() ^ ccr0) & 0x3f != 0 || cpu.er[..7] != er0[..7] {
                findings.push(("entry-frame".into(), format!("boundary {}: entry from PC={:06x} CCR={:02x} SP={:08x} left SP={:08x} frame={:02x?} CCR={:02x}", i, pc0, ccr0, sp0, spn, f, cpu.verif_ccr())));
            }
        }
        let r = catch_unwind(AssertUnwindSafe(|| cpu.verif_step().map_err(|e| e.to_string())));
        i += 1;
        match r {
            Ok(Ok(_)) => {}
            Ok(Err(e)) => {
                end = format!("err: {}", e.lines().next().unwrap_or(""));
                break;
            }
            Err(_) => {
                let pn = take_panic().unwrap_or_default();
                end = format!("panic: {}", pn.msg);
                break;
            }
        }
        if cpu.verif_pc() == cpu.exit_addr {
            break;
        }
        if i > limit {
            end = "step-limit".into();
            break;
        }
    }
    if end == "ok" {
        let left = cpu.verif_pending();
        if !left.is_empty() {
            findings.push(("lost-or-stuck".into(), format!("program finished after a quiescent tail with interrupts enabled but requests {:?} were never entered", left)));
        }
    }
    (read_final(&cpu, p, i, end), log)
}

/// Driver B: the real run() loop, requests injected in the per-iteration hook.
pub fn drive_b(p: &IrqProg, sched: &Schedule, sp: u32) -> (Final, EventLog, Vec<(String, String)>) {
    let mut rig = RunRig::new();
    load_prog(&mut rig.cpu, p, sp);
    #[derive(Default)]
    struct St {
        i: u64,
        log: EventLog,
        last_pending: Vec<u8>,
        last_ccr: u8,
        findings: Vec<(String, String)>,
        stopped: bool,
    }
    let st = shared(St::default());
    let s2 = st.clone();
    let sched2 = sched.clone();
    let stop = rig.to_emu.clone();
    let targets2: HashMap<u8, u32> = (1..64u8).map(|v| (v, if v == 9 && p.uses_trap { p.labels["crit"] } else { p.labels[&format!("stub{}", v)] })).collect();
    let tick = Box::new(move |cpu: &mut Cpu| {
        let mut s = s2.borrow_mut();
        if s.stopped {
            return;
        }
        let now = cpu.verif_pending();
        if s.i > 0 {
            // what left the queue during the previous iteration
            let mut rest = s.last_pending.clone();
            for v in &now {
                if let Some(k) = rest.iter().position(|x| x == v) {
                    rest.remove(k);
                }
            }
            let b = s.i - 1;
            for v in &rest {
                s.log.enters.push((b, *v));
            }
            if !rest.is_empty() && s.last_ccr & 0x80 != 0 {
                // I was set at the boundary where this iteration began. A run loop may also accept at
                // the boundary where the iteration ENDS (after its instruction, e.g. an RTE that
                // cleared I): then no handler instruction has run yet - PC is the vector target and
                // the frame at SP holds the CCR of that boundary, which must have I clear.
                let sp = cpu.er[7] & 0xff_ffff;
                let frame_ccr = crate::mon::real_peek(cpu, sp).unwrap_or(0xff);
                let at_target = rest.iter().any(|v| targets2.get(v).copied() == Some(cpu.verif_pc()));
                if !(at_target && frame_ccr & 0x80 == 0) {
                    let c = s.last_ccr;
                    s.findings.push(("accepted-while-masked".into(), format!("run loop iteration {}: request {:?} entered although CCR={:02x} has I set (stacked CCR {:02x})", b, rest, c, frame_ccr)));
                }
            }
            if rest.len() > 1 {
                s.findings.push(("queue-accounting".into(), format!("run loop iteration {}: {} requests left the queue in one iteration", b, rest.len())));
            }
        }
        let i = s.i;
        if let Some(vs) = sched2.get(&i) {
            for v in vs {
                cpu.verif_request_interrupt(*v);
                s.log.requests += 1;
            }
        }
        s.last_pending = cpu.verif_pending();
        s.last_ccr = cpu.verif_ccr();
        s.i += 1;
        if s.i > 400_000 {
            s.stopped = true;
            let _ = stop.send("cmd:stop".into());
        }
    });
    let end = run_with_hook(&mut rig.cpu, tick);
    let mut s = st.borrow_mut();
    // entries during the final iteration
    let now = rig.cpu.verif_pending();
    let mut rest = s.last_pending.clone();
    for v in &now {
        if let Some(k) = rest.iter().position(|x| x == v) {
            rest.remove(k);
        }
    }
    let b = s.i.saturating_sub(1);
    for v in &rest {
        s.log.enters.push((b, *v));
    }
    let endtxt = match &end {
        RunEnd::Ok if !s.stopped => "ok".to_string(),
        RunEnd::Ok => "step-limit".to_string(),
        RunEnd::Err(e) => format!("err: {}", e.lines().next().unwrap_or("")),
        RunEnd::Panic(m) => format!("panic: {}", m),
    };
    let fin = read_final(&rig.cpu, p, s.i, endtxt);
    (fin, s.log.clone(), std::mem::take(&mut s.findings))
}

pub fn gen_schedule(rng: &mut Rng, n0: u64, p: &IrqProg) -> Schedule {
    let mut s: Schedule = HashMap::new();
    let span = n0.saturating_sub(820).max(10);
    let vec_pool: Vec<u8> = (1..64u8).filter(|v| !(p.uses_trap && *v == 9)).collect();
    let style = rng.below(5);
    let nreq = match style {
        0 => 1 + rng.below(6),
        1 => 20 + rng.below(60),
        _ => 5 + rng.below(40),
    };
    let mut total = 0;
    while total < nreq {
        let b = rng.below(span);
        match rng.below(4) {
            0 => {
                // burst at one boundary
                let k = 2 + rng.below(6);
                for _ in 0..k {
                    s.entry(b).or_default().push(*rng.pick(&vec_pool));
                    total += 1;
                }
            }
            1 => {
                // a request, then more while its handler runs
                s.entry(b).or_default().push(*rng.pick(&vec_pool));
                total += 1;
                for d in 1..(2 + rng.below(12)) {
                    if rng.chance(1, 2) {
                        s.entry(b + d).or_default().push(*rng.pick(&vec_pool));
                        total += 1;
                    }
                }
            }
            2 => {
                // the same vector repeatedly
                let v = *rng.pick(&vec_pool);
                for d in 0..(1 + rng.below(4)) {
                    s.entry(b + d * rng.below(3)).or_default().push(v);
                    total += 1;
                }
            }
            _ => {
                s.entry(b).or_default().push(*rng.pick(&vec_pool));
                total += 1;
            }
        }
    }
    if rng.chance(1, 5) {
        // a very large burst (queue capacity): 20-70 requests at one boundary, vectors repeating
        let b = rng.below(span);
        for _ in 0..(20 + rng.below(50)) {
            s.entry(b).or_default().push(*rng.pick(&vec_pool));
        }
    }
    if rng.chance(1, 8) {
        // queue depths around powers of two (counter widths): raised while a handler runs
        let b = rng.below(span);
        s.entry(b).or_default().push(*rng.pick(&vec_pool));
        let n = *rng.pick(&[127u64, 128, 129, 255, 256, 257, 300, 511, 512, 513]);
        for _ in 0..n {
            s.entry(b + 2).or_default().push(*rng.pick(&vec_pool));
        }
    }
    if rng.chance(1, 3) {
        // requests just before the quiescent tail ends
        s.entry(n0.saturating_sub(400)).or_default().push(*rng.pick(&vec_pool));
    }
    s
}

pub fn c10_case(rep: &mut Report, seed: u64, verbose: bool) -> bool {
    let mut rng = Rng::new(seed);
    let p = gen_irq_prog(&mut rng);
    let sp = if rng.chance(1, 2) { 0x5ff000 } else { 0xffff00 };
    let replay = format!("check=C10 kind=irq seed={}", seed);
    let mut findings: Vec<(String, String)> = vec![];
    let mut cells = vec![];
    // baseline: the same real code with no requests
    let (base, _) = drive_a(&p, &HashMap::new(), sp, &mut vec![], &mut vec![]);
    if base.end != "ok" {
        rep.count("baseline_did_not_finish", 1);
        if verbose {
            println!("  baseline ended with {}", base.end);
        }
        return false;
    }
    let nsched = 3;
    let mut bad = false;
    for _ in 0..nsched {
        let sched = gen_schedule(&mut rng, base.boundaries, &p);
        let nreq: usize = sched.values().map(|v| v.len()).sum();
        let (fa, la) = drive_a(&p, &sched, sp, &mut findings, &mut cells);
        rep.evaluations += 1;
        rep.count("requests_injected", la.requests);
        rep.count("entries_observed", la.enters.len() as u64);
        rep.count("boundaries_observed", fa.boundaries);
        if fa.end == "ok" {
            // R2: exactly once
            let mut req: Vec<u8> = sched.values().flatten().copied().collect();
            let mut ent: Vec<u8> = la.enters.iter().map(|e| e.1).collect();
            req.sort_unstable();
            ent.sort_unstable();
            if req != ent {
                findings.push(("not-exactly-once".into(), format!("{} requests {:?}, entries {:?}", nreq, req, ent)));
            }
            // R3: guest-side handler log equals the entry sequence
            let seq: Vec<u8> = la.enters.iter().map(|e| e.1).filter(|v| !(p.uses_trap && *v == 9)).collect();
            if fa.log != seq || fa.count as usize != seq.len() {
                findings.push(("handler-log".into(), format!("guest handlers logged {:?} (count {}), monitor saw entries {:?}", fa.log, fa.count, seq)));
            }
            // R4: transparency
            if fa.er != base.er || fa.ccr != base.ccr || fa.main_data != base.main_data {
                findings.push(("not-transparent".into(), format!("main program result differs from the request-free run: ER {:x?} vs {:x?}, CCR {:02x} vs {:02x}, data equal: {}", fa.er, base.er, fa.ccr, base.ccr, fa.main_data == base.main_data)));
            }
        } else {
            findings.push(("program-failed".into(), format!("with requests injected the program ended with '{}' (request-free run finishes)", fa.end)));
        }
        // driver B: the real run() must produce the same event log and final state
        let (fb, lb, fbf) = drive_b(&p, &sched, sp);
        rep.evaluations += 1;
        findings.extend(fbf.into_iter().map(|(a, t)| (format!("run-loop.{}", a), t)));
        // the run loop is judged by the same rules on its own log (at which of the two ends of an
        // iteration it accepts, and in which order it serves simultaneous requests, is its own choice,
        // so its log need not equal the stepping loop's entry for entry)
        if fb.end == "ok" {
            let mut req: Vec<u8> = sched.values().flatten().copied().collect();
            let mut ent: Vec<u8> = lb.enters.iter().map(|e| e.1).collect();
            req.sort_unstable();
            ent.sort_unstable();
            if req != ent {
                findings.push(("run-loop.not-exactly-once".into(), format!("{} requests {:?}, entries {:?}", nreq, req, ent)));
            }
            let seq: Vec<u8> = lb.enters.iter().map(|e| e.1).filter(|v| !(p.uses_trap && *v == 9)).collect();
            if fb.log != seq || fb.count as usize != seq.len() {
                findings.push(("run-loop.handler-log".into(), format!("guest handlers logged {:?} (count {}), monitor saw entries {:?}", fb.log, fb.count, seq)));
            }
            if fb.er != base.er || fb.ccr != base.ccr || fb.main_data != base.main_data {
                findings.push(("run-loop.not-transparent".into(), format!("main program result differs from the request-free run: ER {:x?} vs {:x?}, CCR {:02x} vs {:02x}, data equal: {}", fb.er, base.er, fb.ccr, base.ccr, fb.main_data == base.main_data)));
            }
        } else if fa.end == "ok" {
            findings.push(("run-loop.program-failed".into(), format!("with requests injected run() ended with '{}' (the stepping loop and the request-free run finish)", fb.end)));
        }
        let mut h = vec![];
        for (b, vs) in &sched {
            h.push(*b ^ (vs.len() as u64) << 40);
        }
        h.sort_unstable();
        rep.cell("schedule", &[crate::util::hash64(&h)]);
        if verbose {
            println!("  schedule with {} requests: stepping loop {} entries end '{}', run() {} entries end '{}'", nreq, la.enters.len(), fa.end, lb.enters.len(), fb.end);
        }
        rep.sample(|| {
            let mut keys: Vec<&u64> = sched.keys().collect();
            keys.sort_unstable();
            format!("program seed={} ({}), {} boundaries; schedule {:?}...; entries {:?}...", seed, p.desc, base.boundaries, keys.iter().take(5).map(|k| (**k, sched[*k].clone())).collect::<Vec<_>>(), la.enters.iter().take(6).collect::<Vec<_>>())
        });
    }
    for c in cells {
        rep.cell("vector-Ireq-Ientry-burst-inhandler", &c);
    }
    for (a, t) in findings {
        bad = true;
        if verbose {
            println!("  FINDING {}: {}", a, t);
        }
        rep.finding(&format!("irq|{}", a), || format!("{} [program seed={}: {}]", t, seed, p.desc), || replay.clone());
    }
    bad
}

pub fn c10(rep: &mut Report, cfg: &Cfg) {
    let mut rng = cfg.rng("C10");
    let n = cfg.share(cfg.n(320, 40_000)).max(2);
    for _ in 0..n {
        let seed = rng.next();
        c10_case(rep, seed, false);
    }
    rep.notes.push("C10: generated guest programs (main with flag-dependent branches, memory read-modify-write, calls, optional TRAPA critical sections with I set; one handler stub per vector 1-63 that logs its vector number and ends in RTE) x request schedules (single requests, bursts at one boundary, bursts while a handler runs, repeated vectors, requests just before the end). Driver A = stepping loop with exact observation around every acceptance point; driver B = the real run() with injection in the per-iteration hook. Offline rules: entered only with I clear, one per boundary, through its own vector, frame = {CCR, next PC}; request multiset = entry multiset at the end; guest handler log = entry sequence; final main-visible state = request-free run of the same real code; the run() log is judged by the same rules on its own (at which end of an iteration it accepts and in which order it serves simultaneous requests is its choice; masked acceptance is decided by the stacked CCR). Bursts up to 513 pending requests; plain I/O register contents as configuration noise. Cells: (vector, I at request, I at entry, burst size, handler active), schedule hashes.".into());
}

pub fn replay(line: &str) -> (bool, String) {
    let seed: u64 = line.split_whitespace().find_map(|t| t.strip_prefix("seed=")).and_then(|v| v.parse().ok()).unwrap_or(0);
    let mut rep = Report::new("C10");
    let bad = c10_case(&mut rep, seed, true);
    let mut out = String::new();
    for f in rep.findings.values() {
        out.push_str(&format!("  FINDING {}: {}\n", f.sig, f.detail));
    }
    (bad, out)
}
