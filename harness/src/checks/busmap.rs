//! C09 (address space decoding, no aliasing, big-endian) and C19 (bus-cycle cost function).

use super::common::{record, Judge};
use crate::cpu::{Cpu, StateType};
use crate::mon::{real_peek, Action, Case, RealOutcome, Sess};
use crate::refmodel::cost::{cost1, BusRegs, Kind, ABWCR, ASTCR, DRCRA, WCRH, WCRL};
use crate::refmodel::exec::{Outcome, Regs};
use crate::refmodel::mem::{is_special_io, locate, region_name, Mem, REGIONS};
use crate::util::{Cfg, Report, Rng};
use std::panic::{catch_unwind, AssertUnwindSafe};

fn tagf(addr: u32, k: u64) -> u8 {
    let mut x = (addr as u64).wrapping_mul(0x9e3779b97f4a7c15) ^ k.wrapping_mul(0xd6e8feb86659fd93);
    x ^= x >> 29;
    x = x.wrapping_mul(0xbf58476d1ce4e5b9);
    (x >> 40) as u8
}

fn region_slices(cpu: &Cpu) -> [&[u8]; 5] {
    [&cpu.bus.exception_handling_vector[..], &cpu.bus.dram[..], &cpu.bus.io_registrs1[..], &cpu.bus.memory[..], &cpu.bus.io_registrs2[..]]
}

/// compare the five backing arrays with the byte model; returns the first differences
fn compare_all(cpu: &Cpu, mem: &Mem) -> Vec<(u32, u8, u8)> {
    let mut v = vec![];
    let rs = region_slices(cpu);
    for ri in 0..5 {
        if rs[ri].len() != mem.r[ri].len() {
            v.push((REGIONS[ri].0, 0, 0));
            continue;
        }
        if rs[ri] != &mem.r[ri][..] {
            for o in 0..rs[ri].len() {
                if rs[ri][o] != mem.r[ri][o] && v.len() < 8 {
                    v.push((REGIONS[ri].0 + o as u32, rs[ri][o], mem.r[ri][o]));
                }
            }
        }
    }
    v
}

fn plain(addr: u32) -> bool {
    // port DDR / DR are not plain storage (C16); everything else accessible is
    !((addr >= 0xfee000 && addr <= 0xfee00a) || (addr >= 0xffffd0 && addr <= 0xffffda))
}

pub fn c09(rep: &mut Report, cfg: &Cfg) {
    let check = "C09";
    let mut rng = cfg.rng(check);
    let mut cpu = Cpu::new();
    let mut mem = Mem::new();
    // the model starts from whatever a fresh machine holds (initial contents are not pinned)
    for ri in 0..5 {
        let src = region_slices(&cpu)[ri].to_vec();
        let n = src.len().min(mem.r[ri].len());
        mem.r[ri][..n].copy_from_slice(&src[..n]);
    }
    let (rs_seed, rs_shard) = (cfg.seed, cfg.shard);
    let replay_sweep = move |what: &str, a: u32| format!("check=C09 kind=bus what={} addr={:x} seed={} shard={}", what, a, rs_seed, rs_shard);

    // ---- 1. exhaustive classification + tagged write / read-back sweeps over all 2^24 addresses
    let passes = if cfg.tier_thorough { 8 } else { 2 };
    for pass in 0..passes {
        let k = cfg.seed.wrapping_mul(31).wrapping_add(cfg.shard * 8 + pass);
        let reverse = pass % 2 == 1;
        let block = 1u32 << 20;
        for bi in 0..16u32 {
            let b = if reverse { 15 - bi } else { bi };
            for i in 0..block {
                let addr = if reverse { b * block + (block - 1 - i) } else { b * block + i };
                let want = locate(addr).is_some();
                // unmapped addresses: every address is classified (read and write) exactly once
                // per run, in pass 0, by the shard owning its 4 KiB page
                if !want && (pass != 0 || !cfg.mine((addr >> 12) as u64)) {
                    continue;
                }
                // classification by read
                let r = cpu.bus.read(addr);
                rep.evaluations += 1;
                if r.is_ok() != want {
                    rep.finding(
                        &format!("bus|classification.read.{}", if want { "mapped-address-rejected" } else { "unmapped-address-accepted" }),
                        || format!("Bus::read({:06x}) is {} but the address is {} ({})", addr, if r.is_ok() { "Ok" } else { "Err" }, if want { "accessible" } else { "not accessible" }, region_name(addr)),
                        || replay_sweep("read", addr),
                    );
                }
                if want && !plain(addr) {
                    continue;
                }
                let v = tagf(addr, k);
                let w = cpu.bus.write(addr, v);
                if w.is_ok() != want {
                    rep.finding(
                        &format!("bus|classification.write.{}", if want { "mapped-address-rejected" } else { "unmapped-address-accepted" }),
                        || format!("Bus::write({:06x}) is {} but the address is {} ({})", addr, if w.is_ok() { "Ok" } else { "Err" }, if want { "accessible" } else { "not accessible" }, region_name(addr)),
                        || replay_sweep("write", addr),
                    );
                }
                if want {
                    mem.poke(addr, v);
                }
            }
            // after each 1 MiB block of addresses: the arrays must equal the byte model
            // (a failing write that changed anything, or a write that landed elsewhere, shows here)
            let d = compare_all(&cpu, &mem);
            if let Some((a, r, m)) = d.first() {
                rep.finding(
                    "bus|write-changes-other-location",
                    || format!("after writing block {:06x}..{:06x} (pass {}): backing byte for {:06x} is {:02x}, model {:02x}", b * block, (b + 1) * block - 1, pass, a, r, m),
                    || replay_sweep("block", b * block),
                );
                // re-align the model to keep later blocks meaningful
                for ri in 0..5 {
                    let rs = region_slices(&cpu)[ri].to_vec();
                    let n = rs.len().min(mem.r[ri].len());
                    mem.r[ri][..n].copy_from_slice(&rs[..n]);
                }
            }
            rep.cell("block-pass", &[b as u64, pass]);
        }
        // read everything back through the bus
        for addr in 0..(1u32 << 24) {
            if let Some(m) = mem.peek(addr) {
                match cpu.bus.read(addr) {
                    Ok(v) if v == m => {}
                    Ok(v) => rep.finding("bus|read-back", || format!("Bus::read({:06x}) = {:02x}, last value written {:02x} (pass {})", addr, v, m, pass), || replay_sweep("readback", addr)),
                    Err(_) => {}
                }
            }
        }
        rep.evaluations += 1 << 21;
    }
    // ---- time passes: with every peripheral switched off by its OWN registers (timer clock select 0),
    // stores to all other plain locations followed by elapsed peripheral time must leave every
    // location as written (a store decoded by the wrong peripheral shows only after time passes)
    {
        // (all four channels: an implementation may model channels 1-3 as well)
        for a in [0xffff80u32, 0xffff81, 0xffff90, 0xffff91] {
            let _ = cpu.bus.write(a, 0);
            mem.poke(a, 0);
        }
        let k = cfg.seed.wrapping_mul(977).wrapping_add(cfg.shard);
        for (lo, hi, name) in REGIONS {
            if !name.starts_with("io") {
                continue;
            }
            for addr in lo..=hi {
                if !plain(addr) || (0xffff80..=0xffff9f).contains(&addr) {
                    continue;
                }
                let v = tagf(addr, k) | 1;
                if cpu.bus.write(addr, v).is_ok() {
                    mem.poke(addr, v);
                }
                rep.evaluations += 1;
            }
        }
        // memory locations whose low 16 / low 8 address bits equal those of a peripheral register
        // (timer block, port DDR / DR): partial address decoding would show here
        let mut aliases: Vec<u32> = vec![];
        for s in (0xffff80u32..=0xffff9f).chain(0xffffd0..=0xffffda).chain(0xfee000..=0xfee00a) {
            for page in 0x40u32..=0x5f {
                aliases.push((page << 16) | (s & 0xffff));
            }
            for page in 0xffbfu32..=0xffff {
                aliases.push((page << 8) | (s & 0xff));
            }
            aliases.push(s & 0xff);
        }
        for (i, a) in aliases.iter().enumerate() {
            if locate(*a).is_none() || is_special_io(*a) || !plain(*a) {
                continue;
            }
            // values that would start a clock / enable interrupts / drive pins if a peripheral saw them
            let v = [0x41u8, 0xc2, 0xe3, 0xff, 0x0b][i % 5];
            if cpu.bus.write(*a, v).is_ok() {
                mem.poke(*a, v);
            }
            rep.evaluations += 1;
        }
        for _ in 0..400 {
            let _ = catch_unwind(AssertUnwindSafe(|| cpu.verif_update_modules(255)));
        }
        let pend = cpu.verif_pending();
        cpu.verif_clear_pending();
        if let Some((a, r, m)) = compare_all(&cpu, &mem).first() {
            rep.finding(
                "bus|store-has-delayed-effect-elsewhere",
                || format!("all peripherals off by their own registers, every other plain I/O byte written, 102000 states elapsed: location {:06x} now reads {:02x}, last written {:02x}", a, r, m),
                || replay_sweep("elapse", *a),
            );
            for ri in 0..5 {
                let rs = region_slices(&cpu)[ri].to_vec();
                let n = rs.len().min(mem.r[ri].len());
                mem.r[ri][..n].copy_from_slice(&rs[..n]);
            }
        }
        if !pend.is_empty() {
            rep.finding("bus|store-has-delayed-effect-elsewhere.interrupt", || format!("with the timer stopped by its own register, elapsed time raised interrupt requests {:?}", pend), || replay_sweep("elapse", 0));
        }
        rep.cell("elapse-check", &[1]);
    }
    rep.exhaustive.push(format!("all 2^24 addresses: read classification, tagged write, block-wise five-array compare, read-back ({} passes, alternating direction)", passes));
    for (lo, hi, name) in REGIONS {
        for d in [-1i64, 0, 1] {
            rep.cell("boundary", &[lo as u64, (d + 1) as u64]);
            let _ = (hi, name);
        }
    }

    // ---- 2. addresses at or above 2^24: aliases of mapped addresses, powers of two, random
    let mut high: Vec<u32> = vec![];
    for (lo, hi, _) in REGIONS {
        for base in [lo, hi, lo + (hi - lo) / 2] {
            for kk in [1u32, 2, 3, 0x40, 0x7f, 0x80, 0xff] {
                high.push(base.wrapping_add(kk << 24));
            }
        }
    }
    for b in 24..32 {
        high.push(1u32 << b);
        high.push((1u32 << b) | 0x400000);
        high.push((1u32 << b) | 0xffbf20);
    }
    high.push(0xffff_ffff);
    for _ in 0..cfg.n(20_000, 500_000) {
        high.push(rng.u32() | ((1 + rng.below(255) as u32) << 24));
    }
    for a in &high {
        rep.evaluations += 1;
        let r = cpu.bus.read(*a);
        let w = cpu.bus.write(*a, rng.u8());
        if r.is_ok() || w.is_ok() {
            rep.finding("bus|address-above-2^24-accepted", || format!("Bus::read/write({:08x}) succeeded (read {}, write {})", a, r.is_ok(), w.is_ok()), || replay_sweep("high", *a));
        }
        rep.cell("high", &[(*a >> 24) as u64, (*a & 0xffffff >= 0xff0000) as u64]);
    }
    if let Some((a, r, m)) = compare_all(&cpu, &mem).first() {
        rep.finding("bus|failing-access-changes-state", || format!("after accesses above 2^24 backing byte {:06x} is {:02x}, model {:02x}", a, r, m), || replay_sweep("high", 0));
    }

    // ---- 3. histories of byte/word/long writes and reads through MOV at region boundaries
    let sessions = cfg.share(cfg.n(40, 12_000)).max(2);
    for _ in 0..sessions {
        let seed = rng.next();
        history_session(rep, seed, false);
    }
    rep.notes.push("C09: exhaustive sweep of all 2^24 addresses on Bus::read / Bus::write (classification, tagged write with two or four independent tag functions in alternating direction, block-wise compare of all five backing arrays with a byte model, read-back), aliases / powers of two / random addresses above 2^24, and session histories of interleaved byte/word/long MOV stores and loads at region boundaries +-4 and hot interior addresses checked against the byte model (big-endian composition; accesses straddling into unmapped space must fail). Cells: (1 MiB block, pass), region boundaries, high-address classes, (access size, boundary offset, region, direction, outcome).".into());
}

/// MOV @ERn / @aa:24 loads and stores in session mode (memory persists: later reads see earlier writes)
pub fn history_session(rep: &mut Report, seed: u64, verbose: bool) -> bool {
    let mut rng = Rng::new(seed);
    let mut sess = Sess::new(None);
    sess.full_every = 4096;
    let judge = Judge { outcome: true, regs: true, ccr: false, pc: false, mem: true, cost: false, panics: false, only: Some(super::common::is_mov) };
    let replay = format!("check=C09 kind=history seed={}", seed);
    // hot addresses: region boundaries +-4 and a few interior points
    let mut hot: Vec<u32> = vec![];
    for (lo, hi, name) in REGIONS {
        if name.starts_with("io") {
            continue;
        }
        for d in -4i64..=4 {
            hot.push((lo as i64 + d) as u32 & 0xffffff);
            hot.push((hi as i64 + d) as u32 & 0xffffff);
        }
        for _ in 0..6 {
            hot.push(lo + rng.below((hi - lo) as u64) as u32);
        }
    }
    // plain I/O bytes
    for a in [0xfee00bu32, 0xfee0ff, 0xfee020, 0xffff20, 0xffff7f, 0xffffa0, 0xffffe9, 0xffffcf, 0xffffdb] {
        hot.push(a);
    }
    let code = 0xffc000u32;
    let n = 2000 + rng.below(3000);
    let mut bad = false;
    for _ in 0..n {
        let sz = rng.below(3) as u32; // 0 B, 1 W, 2 L
        let nb = 1 << sz;
        let mut a = *rng.pick(&hot);
        if nb > 1 {
            a &= !1;
        }
        // the code page itself must stay intact
        if a >= code && a < code + 16 {
            continue;
        }
        if (0..nb).any(|k| is_special_io(a + k)) {
            continue;
        }
        let store = rng.chance(1, 2);
        let absform = rng.chance(1, 3);
        let dreg = rng.below(6) as u16; // ER0-ER5 data, ER6 address
        let words: Vec<u16> = match (sz, absform, store) {
            (0, false, false) => vec![0x6860 | dreg | if rng.chance(1, 2) { 8 } else { 0 }],
            (0, false, true) => vec![0x68e0 | dreg | if rng.chance(1, 2) { 8 } else { 0 }],
            (1, false, false) => vec![0x6960 | dreg],
            (1, false, true) => vec![0x69e0 | dreg],
            (2, false, false) => vec![0x0100, 0x6960 | dreg],
            (2, false, true) => vec![0x0100, 0x69e0 | dreg],
            (0, true, false) => vec![0x6a20 | dreg, (a >> 16) as u16, a as u16],
            (0, true, true) => vec![0x6aa0 | dreg, (a >> 16) as u16, a as u16],
            (1, true, false) => vec![0x6b20 | dreg, (a >> 16) as u16, a as u16],
            (1, true, true) => vec![0x6ba0 | dreg, (a >> 16) as u16, a as u16],
            (_, true, false) => vec![0x0100, 0x6b20 | dreg, (a >> 16) as u16, a as u16],
            (_, true, true) => vec![0x0100, 0x6ba0 | dreg, (a >> 16) as u16, a as u16],
            _ => continue,
        };
        let mut bytes = vec![];
        for w in &words {
            bytes.push((w >> 8) as u8);
            bytes.push(*w as u8);
        }
        sess.load(code, &bytes);
        let mut r = sess.regs();
        r.pc = code;
        r.er[6] = a | ((rng.u8() as u32) << 24);
        r.er[dreg as usize] = rng.u32();
        r.er[7] = 0xffe000;
        sess.set_regs(&r);
        let obs = sess.act(Action::Step);
        let c = Case { pc: code, code: bytes.clone(), er: r.er, ccr: r.ccr, patches: vec![], pending: vec![] };
        let nf = rep.findings.len();
        super::flow::record_session(rep, "C09", &c, &obs, &judge, &replay);
        if rep.findings.len() > nf {
            bad = true;
            if verbose {
                for d in &obs.diffs {
                    println!("  DIFF {} on {}", super::common::describe(d), c.to_line());
                }
            }
        }
        let okk = matches!(obs.step.outcome, Outcome::Ok(_)) as u64;
        let edge = REGIONS.iter().map(|(lo, hi, _)| (a as i64 - *lo as i64).abs().min((a as i64 - *hi as i64).abs())).min().unwrap_or(99).min(5) as u64;
        rep.cell("size-edge-region-dir-ok", &[sz as u64, edge, locate(a).map(|x| x.0 as u64 + 1).unwrap_or(0), store as u64, okk]);
        if !matches!(obs.real, RealOutcome::Ok(_) | RealOutcome::Err(_)) {
            break;
        }
    }
    sess.full_compare();
    for (at, addr, real, model) in sess.strays.drain(..) {
        bad = true;
        rep.finding("history|mem.stray", || format!("memory differs from the byte model at {:06x}: {:02x} vs {:02x} (found at action {})", addr, real, model, at), || replay.clone());
    }
    rep.sample(|| format!("bus history seed={} accesses={}", seed, n));
    let _ = (real_peek(&sess.cpu, 0), Regs { er: [0; 8], ccr: 0, pc: 0 });
    bad
}

// ---------------------------------------------------------------------------------------------
// C19

fn st(k: Kind) -> StateType {
    match k {
        Kind::I => StateType::I,
        Kind::J => StateType::J,
        Kind::K => StateType::K,
        Kind::L => StateType::L,
        Kind::M => StateType::M,
        Kind::N => StateType::N,
    }
}

pub fn c19(rep: &mut Report, cfg: &Cfg) {
    let mut rng = cfg.rng("C19");
    let mut cpu = Cpu::new();
    let mut scratch = Mem::new();
    let kinds = [Kind::I, Kind::J, Kind::K, Kind::L, Kind::M, Kind::N];
    // (area index or 8 = on-chip RAM, probe addresses)
    let probes: Vec<(u32, Vec<u32>)> = vec![
        (0, vec![0x000000, 0x0000ff, 0x100000, 0x1fffff]),
        (1, vec![0x200000, 0x2abcde, 0x3fffff]),
        (2, vec![0x400000, 0x416900, 0x5fffff]),
        (3, vec![0x600000, 0x700001, 0x7fffff]),
        (4, vec![0x800000, 0x912345, 0x9fffff]),
        (5, vec![0xa00000, 0xb00000, 0xbfffff]),
        (6, vec![0xc00000, 0xd00002, 0xdfffff]),
        (7, vec![0xe00000, 0xf00000, 0xfedfff, 0xfee100, 0xffbf1f]),
        (8, vec![0xffbf20, 0xffe001, 0xffff1f]),
    ];
    let fills = cfg.n(8, 160);
    let mut work = 0u64;
    for (area, addrs) in &probes {
        let a = if *area == 8 { 7 } else { *area };
        for width8 in 0..2u8 {
            for ast in 0..2u8 {
                for wait in 0..4u8 {
                    for dras in 0..8u8 {
                        if (3..=5).contains(area) && dras > 1 {
                            continue;
                        }
                        work += 1;
                        if !cfg.mine(work) {
                            continue;
                        }
                        for fill in 0..fills {
                            // the other register locations of the two I/O blocks (plain storage for this
                            // emulator) hold zeros, ones or random bytes: the charge depends on the five
                            // bus-controller registers only
                            if fill % 2 == 1 || work % 7 == 0 {
                                crate::mon::io_background(&mut cpu, &mut scratch, rng.next());
                                rep.cell("io-background", &[1]);
                            }
                            // random filling of all other areas' bits
                            let mut b = BusRegs { abwcr: rng.u8(), astcr: rng.u8(), wcrh: rng.u8(), wcrl: rng.u8(), drcra: (dras << 5) | (rng.u8() & 0x1f) };
                            b.abwcr = (b.abwcr & !(1 << a)) | (width8 << a);
                            b.astcr = (b.astcr & !(1 << a)) | (ast << a);
                            if a < 4 {
                                b.wcrl = (b.wcrl & !(3 << (2 * a))) | (wait << (2 * a));
                            } else {
                                b.wcrh = (b.wcrh & !(3 << (2 * (a - 4)))) | (wait << (2 * (a - 4)));
                            }
                            for (reg, v) in [(ABWCR, b.abwcr), (ASTCR, b.astcr), (WCRH, b.wcrh), (WCRL, b.wcrl), (DRCRA, b.drcra)] {
                                let _ = cpu.bus.write(reg, v);
                            }
                            for k in kinds {
                                for count in 1..=5u8 {
                                    for addr in addrs {
                                        let Some(c1) = cost1(k, *addr, &b) else { continue };
                                        rep.evaluations += 1;
                                        let want = c1 * count as u32;
                                        let got = catch_unwind(AssertUnwindSafe(|| cpu.calc_state_with_addr(st(k), count, *addr)));
                                        let got = match got {
                                            Ok(Ok(v)) => Some(v as u32),
                                            Ok(Err(_)) => None,
                                            Err(_) => {
                                                let _ = crate::util::take_panic();
                                                None
                                            }
                                        };
                                        rep.cell("area-width-ast-wait-dras-kind", &[*area as u64, width8 as u64, ast as u64, wait as u64, dras as u64, k as u64]);
                                        if got != Some(want) {
                                            let space = if *area == 8 { "on-chip RAM".to_string() } else { format!("area {}", area) };
                                            let sig = format!("cost|{}|{:?}", space.replace(' ', "-"), k);
                                            rep.finding(
                                                &sig,
                                                || format!("calc_state_with_addr({:?}, {}, {:06x}) = {:?}, reference {} under {:?}", k, count, addr, got, want, b),
                                                || format!("check=C19 kind=cost k={:?} count={} addr={:x} abwcr={:x} astcr={:x} wcrh={:x} wcrl={:x} drcra={:x}", k, count, addr, b.abwcr, b.astcr, b.wcrh, b.wcrl, b.drcra),
                                            );
                                        }
                                        rep.sample(|| format!("{:?} x{} at {:06x} under {:?} -> {}", k, count, addr, b, want));
                                    }
                                }
                            }
                        }
                    }
                }
            }
        }
    }
    // ---- histories: the cost depends on the CURRENT settings only. Single registers are rewritten
    // in random order (DRCRA alone, one wait field alone, ...) with cost queries in between, so a
    // value derived from the settings and kept somewhere (stale cache) shows up.
    let mut b = BusRegs::default();
    for (reg, v) in [(ABWCR, 0u8), (ASTCR, 0), (WCRH, 0), (WCRL, 0), (DRCRA, 0)] {
        let _ = cpu.bus.write(reg, v);
    }
    let all_addrs: Vec<(u32, u32)> = probes.iter().flat_map(|(a, v)| v.iter().map(move |x| (*a, *x))).collect();
    let steps = cfg.share(cfg.n(300_000, 40_000_000));
    let mut last_written = 9u64;
    for _ in 0..steps {
        let which = rng.below(7);
        let (reg, v) = match which {
            0 => (ABWCR, if rng.chance(1, 2) { b.abwcr ^ (1 << rng.below(8)) } else { rng.u8() }),
            1 => (ASTCR, if rng.chance(1, 2) { b.astcr ^ (1 << rng.below(8)) } else { rng.u8() }),
            2 => (WCRH, if rng.chance(1, 2) { b.wcrh ^ (1 << rng.below(8)) } else { rng.u8() }),
            3 => (WCRL, if rng.chance(1, 2) { b.wcrl ^ (1 << rng.below(8)) } else { rng.u8() }),
            // DRAM-area select toggled on its own (0/1 keeps areas 3-5 out of DRAM space)
            _ => (DRCRA, ((rng.below(2) as u8) << 5) | (rng.u8() & 0x1f)),
        };
        let _ = cpu.bus.write(reg, v);
        match reg {
            ABWCR => b.abwcr = v,
            ASTCR => b.astcr = v,
            WCRH => b.wcrh = v,
            WCRL => b.wcrl = v,
            _ => b.drcra = v,
        }
        let written = which.min(4);
        for _ in 0..(1 + rng.below(3)) {
            let k = *rng.pick(&kinds);
            let count = 1 + rng.below(5) as u8;
            let (area, addr) = *rng.pick(&all_addrs);
            let Some(c1) = cost1(k, addr, &b) else { continue };
            rep.evaluations += 1;
            let want = c1 * count as u32;
            let got = catch_unwind(AssertUnwindSafe(|| cpu.calc_state_with_addr(st(k), count, addr)));
            let got = match got {
                Ok(Ok(v)) => Some(v as u32),
                Ok(Err(_)) => None,
                Err(_) => {
                    let _ = crate::util::take_panic();
                    None
                }
            };
            rep.cell("history-lastwritten-area-kind", &[written, last_written, area as u64, k as u64]);
            if got != Some(want) {
                let space = if area == 8 { "on-chip-RAM".to_string() } else { format!("area-{}", area) };
                rep.finding(
                    &format!("cost-history|{}|{:?}", space, k),
                    || format!("after a history of single-register writes (last: {:06x}={:02x}) calc_state_with_addr({:?}, {}, {:06x}) = {:?}, the current settings {:?} give {}", reg, v, k, count, addr, got, b, want),
                    || format!("check=C19 kind=cost-history seed={} shard={}", cfg.seed, cfg.shard),
                );
            }
        }
        last_written = written;
    }
    rep.exhaustive.push("per area: bus width x access states x 4 wait values x DRAM select (0-7; areas 3-5: 0-1) x 6 kinds x counts 1-5 x first/middle/last address".into());
    rep.notes.push("C19: exhaustive per-area setting space (width, access-state, wait field, DRAM-area select) x six cycle kinds x counts 1-5 x both ends and interior of every area and of on-chip RAM, each under several seeded random fillings of all other areas' bits (independence); bus-controller registers written through Bus::write, cost read from Cpu::calc_state_with_addr. Histories: single registers rewritten in random order with cost queries in between, judged against the current settings (stale derived state). Cells: (area, width, access-state, wait, DRAM select, kind), (register written last, register written before, area, kind).".into());
}
