//! C01 (MOV), C04 (bit manipulation), C08 (effective addresses), C20 (cycle mix): single-step
//! lock-step checks over the generic case builder.

use super::common::{drain_strays, fid, record, Judge};
use crate::gen::{self, build_case, decode_words, fill, BuildOpts, EaRegion, Fields, Group};
use crate::mon::{Case, Lock};
use crate::refmodel::cost::BusRegs;
use crate::refmodel::decode::{Mn, Opd, Sz};
use crate::refmodel::exec::{sext, wr8, Outcome};
use crate::util::{Cfg, Report, Rng};

fn opd_field(o: &Opd) -> u64 {
    match o {
        Opd::R(f) => *f as u64,
        Opd::Ind(n) | Opd::D16(n, _) | Opd::D24(n, _) | Opd::PostInc(n) | Opd::PreDec(n) => 32 + *n as u64,
        _ => 63,
    }
}

// ---------------------------------------------------------------------------------------------
// C01

pub fn c01(rep: &mut Report, cfg: &Cfg) {
    let check = "C01";
    let mut rng = cfg.rng(check);
    let mut lock = Lock::new(Some(0));
    lock.full_every = 512;
    let judge = Judge::FULL.only(super::common::is_mov);
    let forms = gen::forms_of(Group::Mov);
    let per_form = cfg.share(cfg.n(12_000, 3_000_000));
    for pat in &forms {
        let probe = decode_words(&fill(pat, &Fields { s: 1, d: 2, x: 3, ..Default::default() }));
        let pool = gen::data_pool(probe.sz);
        let nd = if probe.sz == Sz::L { 8 } else { 16 };
        let mut k: u64 = 0;
        // (a) every register number in every field x pool data; (b) all 256 CCR x pool data; (c) random
        let total = per_form + (16 * 16 + 256) as u64;
        while k < total {
            k += 1;
            let mut o = BuildOpts::default();
            let mut f = Fields::random(&mut rng);
            if k <= 256 {
                // register sweep (sharded by work index)
                if !cfg.mine(k) {
                    continue;
                }
                f.s = ((k - 1) % 16) as u8;
                f.d = (((k - 1) / 16) % nd) as u8;
                f.x = ((k - 1) % 8) as u8;
                if matches!(probe.src, Opd::R(_)) && matches!(probe.dst, Opd::R(_)) {
                    // both fields are data registers
                } else {
                    // one field is the address register: sweep it through all 8 against all data registers
                    f.x = (((k - 1) / 16) % 8) as u8;
                }
                o.data = Some(pool[(k as usize) % pool.len()]);
            } else if k <= 512 {
                if !cfg.mine(k) {
                    continue;
                }
                o.ccr = Some((k - 257) as u8);
                o.data = Some(pool[(k as usize) % pool.len()]);
            }
            o.fields = Some(f);
            let Some(b) = build_case(pat, &mut rng, &o) else { continue };
            let obs = lock.run(&b.case);
            if record(rep, check, &b.case, &obs, &judge) {
                if let Outcome::Ok(_) = obs.step.outcome {
                    let form = b.insn.form();
                    let id = fid(&form);
                    rep.cell("form-regs", &[id, opd_field(&b.insn.src), opd_field(&b.insn.dst)]);
                    rep.cell("form-nz", &[id, (obs.model_after.ccr & 0x0c) as u64]);
                    rep.cell("form-region", &[id, b.region.map(|r| r as u64 + 1).unwrap_or(0), (b.case.pc >= 0xff0000) as u64]);
                    rep.cell("form-ccr-in", &[id, b.case.ccr as u64]);
                    rep.count(&format!("ok:{}", form), 1);
                    rep.sample(|| format!("{} ea={:?} data={:x}; {}", form, b.ea, b.data, b.case.to_line()));
                }
            }
        }
    }
    lock.finish();
    drain_strays(rep, check, &mut lock, &judge);
    super::progwalk::run(rep, cfg, "C01", &judge, &[Group::Mov], 300, 60_000);
    rep.notes.push("C01: every MOV form of the table x register fields x data pool/random x all 256 CCR x operand addresses in RAM/DRAM/vector area (first/last bytes of each), full state compare + periodic five-region memory compare. Cells: (form, src field, dst field), (form, N/Z outcome), (form, operand region, code region), (form, initial CCR).".into());
}

// ---------------------------------------------------------------------------------------------
// C04

pub fn c04(rep: &mut Report, cfg: &Cfg) {
    let check = "C04";
    let mut rng = cfg.rng(check);
    let mut lock = Lock::new(Some(0));
    lock.full_every = 512;
    let judge = Judge::FULL.only(super::common::is_bit);
    let forms = gen::forms_of(Group::Bit);
    let mut work = 0u64;
    let reps = cfg.n(1, 40);
    for pat in &forms {
        let probe = decode_words(&fill(pat, &Fields { s: 1, d: 2, x: 3, ..Default::default() }));
        let form = probe.form();
        let bit_in_reg = matches!(probe.src, Opd::R(_));
        // exhaustive: 256 operand values x 8 bit numbers x C
        for val in 0..256u32 {
            for bit in 0..8u8 {
                work += 1;
                if !cfg.mine(work) {
                    continue;
                }
                for cin in 0..2u8 {
                    for _ in 0..reps {
                        let mut o = BuildOpts::default();
                        o.ea_regions = vec![EaRegion::Ram, EaRegion::Dram, EaRegion::Vec, EaRegion::Io2Plain];
                        let mut f = Fields::random(&mut rng);
                        f.bit = bit;
                        // bit-number register must not be the operand register / inside the address register
                        if bit_in_reg {
                            while (f.s & 7) == (f.d & 7) {
                                f = Fields::random(&mut rng);
                                f.bit = bit;
                            }
                        }
                        o.fields = Some(f);
                        o.data = Some(val);
                        o.ccr = Some((rng.u8() & 0xfe) | cin);
                        let Some(mut b) = build_case(pat, &mut rng, &o) else { continue };
                        // operand in a register: place the value; bit number in a register: all upper bits random
                        if let Opd::R(df) = b.insn.dst {
                            wr8(&mut b.case.er, df, val);
                        }
                        if let Opd::R(sf) = b.insn.src {
                            let hi = rng.u8() as u32 & 0xf8;
                            // writing the bit-number register must not disturb the address register's low byte
                            let clash = match b.insn.dst {
                                Opd::Ind(n) => (sf & 7) == n,
                                Opd::R(df) => df == sf,
                                _ => false,
                            };
                            if !clash {
                                wr8(&mut b.case.er, sf, hi | bit as u32);
                            }
                        }
                        run_bit(rep, check, &mut lock, &b.case, &judge, &form, bit as u64, cin as u64, val, b.region);
                    }
                }
            }
        }
        rep.exhaustive.push(format!("{}: 256 operand values x 8 bit numbers x C", form));
        // register-number sweeps incl. overlapping registers, bit-number register values 0..255
        for k in 0..(16 * 16 + 256) as u64 {
            work += 1;
            if !cfg.mine(work) {
                continue;
            }
            let mut o = BuildOpts::default();
            o.ea_regions = vec![EaRegion::Ram, EaRegion::Dram, EaRegion::Vec, EaRegion::Io2Plain];
            let mut f = Fields::random(&mut rng);
            if k < 256 {
                f.s = (k % 16) as u8;
                f.d = (k / 16) as u8;
            }
            o.fields = Some(f);
            let Some(mut b) = build_case(pat, &mut rng, &o) else { continue };
            if k >= 256 {
                if let Opd::R(sf) = b.insn.src {
                    let clash = match b.insn.dst {
                        Opd::Ind(n) => (sf & 7) == n,
                        _ => false,
                    };
                    if !clash {
                        wr8(&mut b.case.er, sf, (k - 256) as u32);
                    }
                }
            }
            run_bit(rep, check, &mut lock, &b.case, &judge, &form, 8, 2, 0, b.region);
        }
    }
    lock.finish();
    drain_strays(rep, check, &mut lock, &judge);
    super::progwalk::run(rep, cfg, "C04", &judge, &[Group::Bit], 300, 60_000);
    rep.notes.push("C04: every bit-manipulation form x (256 operand values x 8 bit numbers x C) exhaustively, operands in byte registers, @ERn (RAM/DRAM/vector area) and @aa:8 (RAM tail and plain I/O bytes; port and timer registers excluded), all register numbers, bit-number register values 0-255. Cells: (form, bit, C-in, bit value, operand location).".into());
}

#[allow(clippy::too_many_arguments)]
fn run_bit(rep: &mut Report, check: &str, lock: &mut Lock, c: &Case, judge: &Judge, form: &str, bit: u64, cin: u64, val: u32, region: Option<EaRegion>) {
    let obs = lock.run(c);
    if record(rep, check, c, &obs, judge) {
        if let Outcome::Ok(_) = obs.step.outcome {
            let id = fid(form);
            let bv = if bit < 8 { ((val >> bit) & 1) as u64 } else { 2 };
            rep.cell("form-bit-c-val-loc", &[id, bit, cin, bv, region.map(|r| r as u64 + 1).unwrap_or(0)]);
            rep.cell("form-regs", &[id, opd_field(&obs.step.insn.src), opd_field(&obs.step.insn.dst)]);
            rep.count(&format!("ok:{}", form), 1);
            rep.sample(|| format!("{} value={:02x} -> CCR {:02x}->{:02x}; {}", form, val, c.ccr, obs.model_after.ccr, c.to_line()));
        }
    }
}

// ---------------------------------------------------------------------------------------------
// C08 — which bytes are accessed, and the +/- register update

pub fn c08_judge() -> Judge {
    // C08 judges which bytes were accessed (memory diffs, loaded value through tagged memory ->
    // destination register) and the address-register update; flags belong to C01-C04.
    Judge { outcome: true, regs: true, ccr: false, pc: true, mem: true, cost: false, panics: false, only: None }
}

pub fn c08(rep: &mut Report, cfg: &Cfg) {
    let check = "C08";
    let mut rng = cfg.rng(check);
    let judge = c08_judge();
    // every instruction with a memory operand
    let mut forms: Vec<&str> = vec![];
    for (_, pat) in gen::FORMS {
        let probe = decode_words(&fill(pat, &Fields { s: 1, d: 2, x: 3, trap: 1, ..Default::default() }));
        if gen::mem_operand(&probe).is_some() || matches!(probe.mn, Mn::Bsr | Mn::Jsr | Mn::Rts | Mn::Rte | Mn::Trapa) {
            forms.push(pat);
        }
    }
    let per_form = cfg.share(cfg.n(2_500, 400_000));
    for pass in 0..2u32 {
        let mut lock = Lock::new(Some(pass));
        lock.full_every = if cfg.tier_thorough { 16 } else { 64 };
        for pat in &forms {
            for k in 0..per_form {
                let mut o = BuildOpts::default();
                o.wrap_heavy = k % 2 == 0;
                o.ea_regions = vec![EaRegion::Ram, EaRegion::Dram, EaRegion::Vec, EaRegion::Io2Plain];
                if k % 7 == 0 {
                    // architectural EA unmapped: both sides must fail
                    o.ea_regions = vec![EaRegion::Hole];
                }
                if k % 11 == 0 {
                    o.top = Some((k / 11) as u8); // every upper byte 0x00-0xff
                }
                let Some(b) = build_case(pat, &mut rng, &o) else { continue };
                let mut obs = lock.run(&b.case);
                // attribution: C08 is about WHICH bytes are accessed. A read-modify-write bit
                // instruction that touched the right byte but produced a wrong value is C04's
                // business: keep a memory difference at a reference-written address only for pure
                // stores (MOV, STC, pushes), or when the emulator also changed some other byte.
                let rmw = matches!(b.insn.mn, Mn::Bset | Mn::Bnot | Mn::Bclr | Mn::Bst | Mn::Bist);
                if rmw {
                    let elsewhere = obs.real_changes.iter().any(|(a, _, _)| !obs.model_writes.iter().any(|(m, _)| m == a));
                    if !elsewhere {
                        obs.diffs.retain(|d| !matches!(d, crate::mon::Diff::Mem { addr, .. } if obs.model_writes.iter().any(|(m, _)| m == addr)));
                    }
                }
                if record(rep, check, &b.case, &obs, &judge) {
                    let form = b.insn.form();
                    let id = fid(&form);
                    let wrap = wrap_kind(&b.insn.src, &b.insn.dst, &b.case.er);
                    let okk = matches!(obs.step.outcome, Outcome::Ok(_)) as u64;
                    rep.cell("form-wrap-region", &[id, wrap, b.region.map(|r| r as u64 + 1).unwrap_or(0), okk]);
                    rep.cell("form-top", &[id, (addr_reg_top(&b.insn.src, &b.insn.dst, &b.case.er) != 0) as u64]);
                    rep.count(&format!("ok:{}", form), okk);
                    rep.count("must-fail-cases", 1 - okk);
                    rep.sample(|| format!("{} ea={:06x?} wrap-kind={}; {}", form, b.ea, wrap, b.case.to_line()));
                }
            }
        }
        lock.finish();
        drain_strays(rep, check, &mut lock, &judge);
    }
    // ---- address chains (history): access, update PART of the address register by an instruction
    // (byte / word view, ADDS, INC), access again with the same mode, register and displacement.
    // Every step is judged in lock step from the real machine's state, so an effective address
    // derived from stale state shows at the second access.
    super::progwalk::run(rep, cfg, "C08", &c08_judge(), &[Group::Mov, Group::Bit, Group::Stc], 300, 60_000);
    let chains = cfg.share(cfg.n(4_000, 120_000));
    for _ in 0..chains {
        let seed = rng.next();
        chain_session(rep, seed, false);
    }
    rep.notes.push("C08 histories: chains MOV.L #base,ERn; access; partial update of ERn through RnL/RnH/Rn/En views or ADDS/INC; access again with the same mode/register/displacement (also loads whose destination is part of the address register), judged step by step.".into());
    rep.notes.push("C08: every form with a memory operand (MOV all modes, bit operations, STC, JMP/JSR @ERn/@@aa:8, BSR/JSR/RTS/RTE/TRAPA stack accesses); base registers with every upper byte, displacement pools that make the 32-bit sum wrap at 2^24, 2^32 and below zero; address-tagged memory in two independent passes so the byte read is identified by the value loaded; unmapped architectural EAs must fail. Cells: (form, wrap kind, EA region, ok/must-fail), (form, upper byte zero/non-zero).".into());
}

fn addr_reg_top(src: &Opd, dst: &Opd, er: &[u32; 8]) -> u32 {
    for o in [src, dst] {
        match o {
            Opd::Ind(n) | Opd::D16(n, _) | Opd::D24(n, _) | Opd::PostInc(n) | Opd::PreDec(n) => return er[*n as usize] >> 24,
            _ => {}
        }
    }
    er[7] >> 24
}

/// 0 none, 1 crosses 2^24, 2 crosses 2^32, 3 goes below zero
fn wrap_kind(src: &Opd, dst: &Opd, er: &[u32; 8]) -> u64 {
    for o in [src, dst] {
        let (n, d) = match o {
            Opd::D16(n, d) => (*n, sext(*d as u32, 16)),
            Opd::D24(n, d) => (*n, sext(*d, 24)),
            Opd::PreDec(n) => (*n, 0xffff_ffff),
            _ => continue,
        };
        let b = er[n as usize] as i64;
        let s = b + (d as i32) as i64;
        if s < 0 {
            return 3;
        }
        if s > 0xffff_ffff {
            return 2;
        }
        if (b & 0xffffff) + ((d as i32) as i64) > 0xffffff || (b & 0xffffff) + ((d as i32) as i64) < 0 {
            return 1;
        }
        return 0;
    }
    0
}

// ---------------------------------------------------------------------------------------------
// C20 — returned state count

pub fn bus_settings(rng: &mut Rng) -> Vec<BusRegs> {
    // settings under which RAM, DRAM (area 2) and area 0 have pairwise distinct byte and word costs
    let mut v = vec![
        // reset-like values of the real board set by init_registers
        BusRegs { abwcr: 0xff, astcr: 0xfb, wcrh: 0xff, wcrl: 0xcf, drcra: 0xe0 },
        // 16-bit DRAM with 1 wait (5), area 0 8-bit 3-state 0 wait (byte 3, word 6)
        BusRegs { abwcr: 0x01, astcr: 0xff, wcrh: 0x00, wcrl: 0x10, drcra: 0x20 },
        // area 0 16-bit 3-state 2 waits (5), DRAM 8-bit 0 wait (byte 4, word 8)
        BusRegs { abwcr: 0x04, astcr: 0x01, wcrh: 0x55, wcrl: 0x02, drcra: 0x20 },
        // no DRAM space: area 2 as plain 3-state 1-wait 16-bit (4); area 0 2-state 8-bit (byte 2 word 4)
        BusRegs { abwcr: 0x01, astcr: 0x04, wcrh: 0xaa, wcrl: 0x10, drcra: 0x00 },
    ];
    for _ in 0..4 {
        // random settings; DRAM select kept to 0/1 so areas 3-5 are never DRAM space
        v.push(BusRegs { abwcr: rng.u8(), astcr: rng.u8(), wcrh: rng.u8(), wcrl: rng.u8(), drcra: (rng.u8() & 0x20) | (rng.u8() & 0x1f) });
    }
    v
}

pub fn c20(rep: &mut Report, cfg: &Cfg) {
    let check = "C20";
    let mut rng = cfg.rng(check);
    let mut lock = Lock::new(Some(0));
    lock.full_every = 4096;
    lock.judge_cost = true;
    let judge = Judge::COST;
    let settings = bus_settings(&mut cfg.rng("bus"));
    let per_form = cfg.share(cfg.n(4_000, 600_000));
    for (_, pat) in gen::FORMS {
        for k in 0..per_form {
            let mut o = BuildOpts::default();
            o.ea_regions = vec![EaRegion::Ram, EaRegion::Dram, EaRegion::Vec];
            o.sp_regions = vec![EaRegion::Ram, EaRegion::Dram];
            o.code_dram = Some(k % 2 == 0);
            let Some(mut b) = build_case(pat, &mut rng, &o) else { continue };
            let si = (k as usize / 2) % settings.len();
            b.case.bus(&settings[si]);
            let obs = lock.run(&b.case);
            if record(rep, check, &b.case, &obs, &judge) {
                if let (Outcome::Ok(_), Some(cm)) = (&obs.step.outcome, obs.cost_model) {
                    if cm < 256 {
                        let form = b.insn.form();
                        let id = fid(&form);
                        rep.cell("form-areas-setting", &[id, (k % 2) as u64, b.region.map(|r| r as u64 + 1).unwrap_or(0), b.sp_region.map(|r| r as u64 + 1).unwrap_or(0), si as u64]);
                        rep.cell("form-cost", &[id, cm as u64]);
                        rep.count(&format!("ok:{}", form), 1);
                        rep.sample(|| format!("{} states={} under {:?}; {}", form, cm, settings[si], b.case.to_line()));
                    } else {
                        rep.count("total-over-255-not-judged", 1);
                    }
                }
            }
        }
    }
    lock.finish();
    drain_strays(rep, check, &mut lock, &judge);
    super::progwalk::run(rep, cfg, "C20", &judge, &[Group::Mov, Group::Arith, Group::Logic, Group::Bit, Group::Stc], 300, 60_000);
    // ---- the charge of the MES system call (TRAPA #0: its cycle mix is not in the manual, so the
    // reference has no number for it) must still depend on form and areas only, not on history
    let mut hrng = cfg.rng("C20-syscall-history");
    for _ in 0..cfg.share(cfg.n(400, 60_000)) {
        rep.evaluations += 1;
        syscall_cost_history(rep, hrng.next(), false);
    }
    rep.notes.push("C20 system-call histories: the same TRAPA #0 call (same registers, memory, areas, bus settings) executed before and after a random history of interrupt entries, traps, returns and stack switches on the same machine must be charged the same number of states.".into());
    rep.notes.push("C20: every implemented form x code in RAM/DRAM x operand/stack/vector in RAM, DRAM, vector area x 8 bus-controller settings (4 hand-made with pairwise distinct costs + 4 seeded random); compares the state count returned by the step with cycle-table x cost-function. Cells: (form, code area, data area, stack area, setting), (form, total).".into());
}

/// one address chain in session mode (see c08)
pub fn chain_session(rep: &mut Report, seed: u64, verbose: bool) -> bool {
    use crate::mon::{Action, Sess};
    let mut rng = Rng::new(seed);
    let mut sess = Sess::new(Some((seed & 1) as u32));
    sess.full_every = 64;
    let judge = c08_judge();
    let replay = format!("check=C08 kind=chain seed={}", seed);
    let n = rng.below(7) as u16; // address register ER0-ER6
    let m = ((n + 1 + rng.below(6) as u16) % 7) as u16; // data register, different
    let in_dram = rng.chance(1, 2);
    let window = if in_dram { 0x480000u32 + ((rng.below(0x100) as u32) << 8) } else { 0xffd000 + ((rng.below(8) as u32) << 8) };
    let mode = rng.below(5);
    let sz = rng.below(3); // 0 B 1 W 2 L
    let disp: u32 = match mode {
        1 => *rng.pick(&[0u32, 2, 0x10, 0x7e, 0xfff0, 0xff80, 0x100]),
        2 => *rng.pick(&[0u32, 4, 0x20, 0x1000, 0xfffff0, 0xffff00, 0x7ffe]),
        _ => 0,
    };
    let sd = if mode == 1 { crate::refmodel::exec::sext(disp, 16) } else if mode == 2 { crate::refmodel::exec::sext(disp, 24) } else { 0 };
    let base = (window + 0x40).wrapping_sub(sd) & 0xffffff | if rng.chance(1, 2) { (rng.u8() as u32) << 24 } else { 0 };
    let code = 0xffc000u32;
    let mut pc = code;
    let mut r = sess.regs();
    r.er = gen::regs(&mut rng);
    r.er[7] = 0xffe800;
    r.pc = code;
    sess.set_regs(&r);
    let access = |rng: &mut Rng, store: bool, self_dst: bool| -> Vec<u16> {
        let d = if self_dst && !store && sz == 0 { 8 + n } else { m }; // x = table[x]
        let (op_b, op_w) = (0u16, 0u16);
        let _ = (op_b, op_w, rng);
        match (mode, sz) {
            (0, 0) => vec![0x6800 | if store { 0x80 } else { 0 } | (n << 4) | d],
            (0, 1) => vec![0x6900 | if store { 0x80 } else { 0 } | (n << 4) | d],
            (0, _) => vec![0x0100, 0x6900 | if store { 0x80 } else { 0 } | (n << 4) | d],
            (1, 0) => vec![0x6e00 | if store { 0x80 } else { 0 } | (n << 4) | d, disp as u16],
            (1, 1) => vec![0x6f00 | if store { 0x80 } else { 0 } | (n << 4) | d, disp as u16],
            (1, _) => vec![0x0100, 0x6f00 | if store { 0x80 } else { 0 } | (n << 4) | d, disp as u16],
            (2, 0) => vec![0x7800 | (n << 4), if store { 0x6aa0 } else { 0x6a20 } | d, (disp >> 16) as u16, disp as u16],
            (2, 1) => vec![0x7800 | (n << 4), if store { 0x6ba0 } else { 0x6b20 } | d, (disp >> 16) as u16, disp as u16],
            (2, _) => vec![0x0100, 0x7800 | (n << 4) | if store { 0x80 } else { 0 }, if store { 0x6ba0 } else { 0x6b20 } | d, (disp >> 16) as u16, disp as u16],
            // @ERn+ loads / @-ERn stores
            (3, 0) => vec![0x6c00 | (n << 4) | d],
            (3, 1) => vec![0x6d00 | (n << 4) | d],
            (3, _) => vec![0x0100, 0x6d00 | (n << 4) | d],
            (_, 0) => vec![0x6c80 | (n << 4) | d],
            (_, 1) => vec![0x6d80 | (n << 4) | d],
            (_, _) => vec![0x0100, 0x6d80 | (n << 4) | d],
        }
    };
    let mut prog: Vec<Vec<u16>> = vec![vec![0x7a00 | n, (base >> 16) as u16, base as u16]];
    let rounds = 2 + rng.below(3);
    for k in 0..rounds {
        let store = match mode {
            3 => false,
            4 => true,
            _ => rng.chance(1, 2),
        };
        let selfdst = k > 0 && rng.chance(1, 3);
        prog.push(access(&mut rng, store, selfdst));
        // partial update of ERn that keeps the effective address inside the window (even for W/L)
        let step = (2 * (1 + rng.below(12))) as u16;
        let upd: Vec<u16> = match rng.below(7) {
            0 => vec![0xf000 | ((8 + n) << 8) | (0x40 + step)],          // MOV.B #imm,RnL
            1 => vec![0x8000 | ((8 + n) << 8) | step],                    // ADD.B #imm,RnL
            2 => vec![0x0b50 | n, 0x0b50 | n],                            // INC.W #1,Rn twice
            3 => vec![0x0bd0 | n],                                        // INC.W #2,Rn
            4 => vec![0x7910 | n, step],                                  // ADD.W #imm,Rn
            5 => vec![0x0b80 | n],                                        // ADDS #2,ERn (32-bit update)
            _ => vec![0x0c00 | ((8 + m) << 4) | (8 + n)],                 // MOV.B RmL,RnL (value from the data register)
        };
        // split two-instruction updates
        if upd.len() == 2 && upd[0] == upd[1] {
            prog.push(vec![upd[0]]);
            prog.push(vec![upd[1]]);
        } else {
            prog.push(upd);
        }
    }
    prog.push(access(&mut rng, mode == 4, false));
    let mut bad = false;
    for words in &prog {
        let mut bytes = vec![];
        for w in words {
            bytes.push((w >> 8) as u8);
            bytes.push(*w as u8);
        }
        sess.load(pc, &bytes);
        let before = sess.regs();
        let obs = sess.act(Action::Step);
        let c = Case { pc, code: bytes.clone(), er: before.er, ccr: before.ccr, patches: vec![], pending: vec![] };
        let nf = rep.findings.len();
        // only the memory accesses are C08's business
        if gen::mem_operand(&obs.step.insn).is_some() {
            super::flow::record_session(rep, "C08", &c, &obs, &judge, &replay);
            let okk = matches!(obs.step.outcome, Outcome::Ok(_)) as u64;
            rep.cell("chain-mode-size-ok", &[mode, sz, okk, in_dram as u64]);
        } else {
            rep.count("chain_update_steps_not_judged", 1);
        }
        if rep.findings.len() > nf {
            bad = true;
        }
        if verbose {
            println!("  pc={:06x} {:04x?} {} -> {:?} ea={:06x?} diffs={}", pc, words, obs.step.insn.form(), obs.real, obs.step.ea, obs.diffs.len());
        }
        if !matches!(obs.real, crate::mon::RealOutcome::Ok(_)) {
            break;
        }
        pc += bytes.len() as u32;
    }
    sess.full_compare();
    for (at, addr, real, model) in sess.strays.drain(..) {
        bad = true;
        rep.finding("chain|mem.stray", || format!("memory differs from the mirror at {:06x}: {:02x} vs {:02x} (action {})", addr, real, model, at), || replay.clone());
    }
    rep.sample(|| format!("address chain seed={} mode={} size={} ER{} base={:08x} disp={:x}: {} steps", seed, mode, sz, n, base, disp, prog.len()));
    bad
}


/// the same MES call before and after an unrelated history: equal charge (see c20)
pub fn syscall_cost_history(rep: &mut Report, seed: u64, verbose: bool) -> bool {
    use crate::mon::{Action, RealOutcome, Sess};
    use crate::refmodel::exec::Regs;
    let mut rng = Rng::new(seed);
    let mut sess = Sess::new(Some((seed & 1) as u32));
    let replay = format!("check=C20 kind=syscallhistory seed={}", seed);
    let area = |rng: &mut Rng, k: u64| -> u32 {
        // stacks / code / blocks in on-chip RAM (k even) or DRAM (k odd), apart from each other
        if k % 2 == 0 { 0xffd000 + 0x100 * rng.below(16) as u32 } else { 0x480000 + 0x1000 * rng.below(64) as u32 }
    };
    if rng.chance(1, 2) {
        let b = crate::refmodel::cost::BusRegs { abwcr: rng.u8(), astcr: rng.u8(), wcrh: rng.u8(), wcrl: rng.u8(), drcra: rng.u8() };
        let mut c = Case::words(0, &[]);
        c.bus(&b);
        for (a, v) in &c.patches {
            sess.poke(*a, *v);
        }
    }
    for v in 1..64u32 {
        sess.poke32(4 * v, 0xffc800 + 8 * v);
    }
    let (kc, ks, ka) = (rng.below(2), rng.below(2), rng.below(2));
    let pc = if kc == 0 { 0xffc000 + 2 * rng.below(0x100) as u32 } else { 0x440000 + 2 * rng.below(0x1000) as u32 };
    let sp = area(&mut rng, ks) + 0x80;
    let argp = area(&mut rng, ka) + 0xc0;
    let id = if rng.chance(1, 2) { 104 } else { 113 };
    // write of zero bytes / set_handler of an ignored vector: no effect on memory or the console
    sess.poke32(argp, if id == 104 { 1 } else { 0 });
    sess.poke32(argp + 4, 0xffc400);
    sess.poke32(argp + 8, 0);
    sess.load(pc, &[0x57, 0x00]);
    let mut er = gen::regs(&mut rng);
    er[0] = id;
    er[1] = argp;
    er[7] = sp;
    let k = Regs { er, ccr: rng.u8(), pc };
    sess.set_regs(&k);
    let RealOutcome::Ok(c1) = sess.act(Action::Step).real else { return false };
    // ---- unrelated history
    let n = 1 + rng.below(6);
    let mut hist = vec![];
    for _ in 0..n {
        let mut r = sess.regs();
        let which = rng.below(2);
        r.er[7] = area(&mut rng, which) + 0x40 + 4 * rng.below(8) as u32;
        r.pc = 0xffc400 + 2 * rng.below(0x80) as u32;
        match rng.below(4) {
            0 | 1 => {
                r.ccr &= 0x7f;
                sess.set_regs(&r);
                let v = 1 + rng.below(63) as u8;
                let _ = sess.act(Action::Interrupt(v));
                hist.push(format!("interrupt {} with SP={:06x}", v, r.er[7]));
            }
            2 => {
                sess.set_regs(&r);
                let t = 1 + rng.below(3) as u8;
                sess.load(r.pc, &[0x57, t << 4]);
                let _ = sess.act(Action::Step);
                hist.push(format!("TRAPA #{} with SP={:06x}", t, r.er[7]));
            }
            _ => {
                sess.poke32(r.er[7], 0x00ffc600);
                sess.set_regs(&r);
                sess.load(r.pc, &[0x56, 0x70]);
                let _ = sess.act(Action::Step);
                hist.push(format!("RTE with SP={:06x}", r.er[7]));
            }
        }
    }
    // ---- the same call again
    sess.load(pc, &[0x57, 0x00]);
    sess.poke32(argp, if id == 104 { 1 } else { 0 });
    sess.poke32(argp + 4, 0xffc400);
    sess.poke32(argp + 8, 0);
    sess.set_regs(&k);
    let RealOutcome::Ok(c2) = sess.act(Action::Step).real else { return false };
    rep.cell("syscall-history", &[id as u64, kc, ks, ka, n]);
    if verbose {
        println!("  TRAPA #0 (ER0={}) pc={:06x} sp={:06x} args={:06x}: {} states, after [{}]: {} states", id, pc, sp, argp, c1, hist.join("; "), c2);
    }
    if c1 != c2 {
        rep.finding(
            "TRAPA #0|cost-depends-on-history",
            || format!("TRAPA #0 (ER0={}) at {:06x} with SP={:06x}, arguments at {:06x}: {} states; after [{}] the identical call is charged {} states", id, pc, sp, argp, c1, hist.join("; "), c2),
            || replay.clone(),
        );
        return true;
    }
    false
}
