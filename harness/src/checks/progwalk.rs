//! Straight-line program walks (C01-C04, C08, C20): contiguous instruction sequences executed one
//! after the other on ONE machine in session mode, every step judged by the reference model.
//!
//! The single-step cases of the other workloads set the whole pre-state afresh; here only the
//! address register of a memory operand is prepared - by a real `MOV.L #imm32,ERn` in the program -
//! so that data registers, flags, memory contents and whatever the emulator keeps *outside* the
//! architectural state (fetch latches, cached decode or cost results, "last address" shortcuts)
//! flow from one instruction into the next, with PC continuity.

use super::common::{fid, Judge};
use super::flow::record_session;
use crate::gen::{self, build_case, BuildOpts, Group, FORMS};
use crate::mon::{Action, Case, RealOutcome, Sess};
use crate::refmodel::decode::{Mn, Opd};
use crate::refmodel::exec::Regs;
use crate::util::{Cfg, Report, Rng};

fn addr_reg(o: Opd) -> Option<u8> {
    match o {
        Opd::Ind(n) | Opd::D16(n, _) | Opd::D24(n, _) | Opd::PostInc(n) | Opd::PreDec(n) => Some(n),
        _ => None,
    }
}

fn is_flow_mn(m: Mn) -> bool {
    matches!(m, Mn::Bcc | Mn::Bsr | Mn::Jmp | Mn::Jsr | Mn::Rts | Mn::Rte | Mn::Trapa)
}

pub fn progwalk_session(rep: &mut Report, check: &str, judge: &Judge, groups: &[Group], seed: u64, verbose: bool) -> bool {
    let mut rng = Rng::new(seed);
    let mut sess = Sess::new(Some((seed & 1) as u32));
    sess.full_every = 128;
    sess.judge_cost = judge.cost;
    let replay = format!("check={} kind=progwalk seed={}", check, seed);
    let code_dram = rng.chance(1, 2);
    let base = if code_dram { 0x410000 + (rng.below(0xe0000) as u32 & !1) } else { 0xffc000 + (rng.below(0x800) as u32 & !1) };
    let mut r = Regs { er: gen::regs(&mut rng), ccr: rng.u8(), pc: base };
    r.er[7] = (if rng.chance(1, 2) { 0xfff800u32 } else { 0x5f8000 }) | if rng.chance(1, 3) { (rng.u8() as u32) << 24 } else { 0 };
    sess.set_regs(&r);
    if rng.chance(1, 4) {
        sess.io_background(rng.next());
    }
    if rng.chance(1, 3) {
        for (a, v) in gen::io_noise(&mut rng) {
            sess.poke(a, v);
        }
    }
    let n = 20 + rng.below(60);
    let mut pc = base;
    let mut bad = false;
    let mut prev_id = 0u64;
    let mut executed = 0u64;
    for step in 0..n {
        let (grp, pat) = *rng.pick(FORMS);
        if grp == Group::Flow {
            continue;
        }
        // three quarters from the property's own groups
        if !groups.contains(&grp) && !rng.chance(1, 4) {
            continue;
        }
        let mut o = BuildOpts::default();
        o.pc = Some(pc);
        // operands away from the program and mostly mapped
        o.ea_regions = vec![gen::EaRegion::Ram, gen::EaRegion::Dram, gen::EaRegion::Vec];
        let Some(b) = build_case(pat, &mut rng, &o) else { continue };
        if is_flow_mn(b.insn.mn) {
            continue;
        }
        let mut prog: Vec<u8> = vec![];
        let mut ninsn = 1;
        if let Some(mo) = gen::mem_operand(&b.insn) {
            if let Some(nr) = addr_reg(mo) {
                let v = b.case.er[nr as usize];
                prog.extend_from_slice(&[0x7a, nr & 7]);
                prog.extend_from_slice(&v.to_be_bytes());
                ninsn = 2;
            }
        }
        prog.extend_from_slice(&b.case.code);
        let end = pc + prog.len() as u32;
        sess.load(pc, &prog);
        // memory the generator prepared for the operand (and occasional bus settings): set by "the
        // environment" before the instruction, never on top of the program
        for (a, v) in &b.case.patches {
            if *a + 8 < base || *a >= end + 16 {
                sess.poke(*a, *v);
            }
        }
        for k in 0..ninsn {
            let before = sess.regs();
            let obs = sess.act(Action::Step);
            executed += 1;
            let code: Vec<u8> = if ninsn == 2 && k == 0 { prog[..6].to_vec() } else { b.case.code.clone() };
            let c = Case { pc: before.pc, code, er: before.er, ccr: before.ccr, patches: vec![], pending: vec![] };
            let nf = rep.findings.len();
            record_session(rep, check, &c, &obs, judge, &replay);
            bad |= rep.findings.len() > nf;
            if verbose {
                println!("  step {}.{} pc={:06x} {}: real {:?}", step, k, before.pc, obs.step.insn.form(), obs.real);
                for d in &obs.diffs {
                    println!("    DIFF {}", super::common::describe(d));
                }
            }
            let id = fid(&obs.step.insn.form());
            if matches!(obs.real, RealOutcome::Ok(_)) {
                rep.cell("walk-form-after-group", &[id, prev_id % 8]);
            }
            prev_id = id;
            if !matches!(obs.real, RealOutcome::Ok(_)) {
                // an error leaves PC wherever the instruction stopped: go on with the next planned one
                let mut rr = sess.regs();
                rr.pc = if ninsn == 2 && k == 0 { pc + 6 } else { end };
                sess.set_regs(&rr);
            }
        }
        // the walk itself keeps PC continuity; a diverging PC is reported by the monitor above
        let mut rr = sess.regs();
        if rr.pc != end {
            rr.pc = end;
            sess.set_regs(&rr);
        }
        pc = end;
        if pc > base + 0x1800 {
            break;
        }
    }
    sess.full_compare();
    for (at, addr, real, model) in sess.strays.drain(..) {
        bad = true;
        rep.finding("progwalk|mem.stray", || format!("memory differs from the mirror at {:06x}: {:02x} vs {:02x} (found at action {})", addr, real, model, at), || replay.clone());
    }
    rep.count("program_walk_steps", executed);
    rep.sample(|| format!("program walk seed={} code@{:06x} {} steps", seed, base, executed));
    bad
}

/// the program-walk share of a check
pub fn run(rep: &mut Report, cfg: &Cfg, check: &'static str, judge: &Judge, groups: &[Group], quick: u64, thorough: u64) {
    let mut rng = cfg.rng(&format!("{}-progwalk", check));
    let n = cfg.share(cfg.n(quick, thorough));
    for _ in 0..n {
        let seed = rng.next();
        rep.evaluations += 1;
        progwalk_session(rep, check, judge, groups, seed, false);
    }
    rep.notes.push(format!("{} program walks: contiguous random instruction sequences (20-80 forms, three quarters from the property's groups; the address register of a memory operand is loaded by a real MOV.L #imm32 in the program, everything else flows from the previous instructions) executed on one machine in session mode, every step judged; PC continuity and full five-region compares. Cells: (form, group of the preceding form).", check));
}
