//! C07 — every opcode is executed as exactly the instruction it encodes, or rejected.
//! Judged aspects (attribution rule, DESIGN 2.4): Ok/Err outcome, consumed length, and footprint
//! containment (whatever changed lies in the write-set of the decoded instruction).

use super::common::{drain_strays, fid, Judge};
use crate::mon::{Case, Lock, Obs, RealOutcome};
use crate::refmodel::decode::{Class, Insn, Mn, Opd};
use crate::refmodel::exec::Outcome;
use crate::util::{Cfg, Report, Rng};

pub fn ccr_writes(i: &Insn) -> u8 {
    use Mn::*;
    match i.mn {
        Mov | And | Or | Xor | Not | Extu | Inc | Dec => 0x0e,
        Add | Sub | Cmp | Neg | Addx => 0x2f,
        Divxu => 0x0c,
        Shll | Shal | Shlr | Shar | Rotxl | Rotl | Rotxr | Rotr => 0x0f,
        Btst => 0x04,
        Bld | Bild | Band | Biand | Bor | Bior | Bxor | Bixor => 0x01,
        Rte => 0xff,
        Trapa => 0xc0,
        _ => 0,
    }
}

pub fn reg_writes(i: &Insn) -> u8 {
    use Mn::*;
    let mut m = 0u8;
    let writes_dst = !matches!(i.mn, Cmp | Btst | Bld | Bild | Band | Biand | Bor | Bior | Bxor | Bixor);
    if writes_dst {
        if let Opd::R(f) = i.dst {
            m |= 1 << (f & 7);
        }
    }
    for o in [i.src, i.dst] {
        if let Opd::PostInc(n) | Opd::PreDec(n) = o {
            m |= 1 << n;
        }
    }
    if matches!(i.mn, Bsr | Jsr | Rts | Rte | Trapa) {
        m |= 0x80;
    }
    m
}

fn is_flow(i: &Insn) -> bool {
    matches!(i.mn, Mn::Bcc | Mn::Jmp | Mn::Bsr | Mn::Jsr | Mn::Rts | Mn::Rte | Mn::Trapa)
}

/// Findings of C07 for one observation: list of (aspect, text)
pub fn judge_c07(c: &Case, obs: &Obs) -> Vec<(String, String)> {
    let mut v = vec![];
    let i = &obs.step.insn;
    match (&obs.step.outcome, &obs.real) {
        (Outcome::Ok(_), RealOutcome::Ok(_)) => {
            // consumed length
            if !is_flow(i) {
                let want = c.pc.wrapping_add(i.len as u32);
                if obs.real_after.pc != want {
                    v.push(("length".to_string(), format!("PC advanced to {:06x}, encoded length {} gives {:06x}", obs.real_after.pc, i.len, want)));
                }
            } else if matches!(i.mn, Mn::Bcc) && obs.model_after.pc == c.pc.wrapping_add(i.len as u32) && obs.real_after.pc != obs.model_after.pc {
                // a conditional branch that is not taken must still consume its whole encoding
                // (the taken/not-taken decision and the target are C05's business)
                let untaken_by_real = obs.real_after.pc.wrapping_sub(c.pc) <= 4;
                if untaken_by_real {
                    v.push(("length".to_string(), format!("untaken branch advanced PC to {:06x}, encoded length {} gives {:06x}", obs.real_after.pc, i.len, obs.model_after.pc)));
                }
            }
            // footprint containment
            let rw = reg_writes(i);
            for k in 0..8 {
                if obs.real_after.er[k] != c.er[k] && rw & (1 << k) == 0 {
                    v.push(("footprint.reg".to_string(), format!("ER{} changed {:08x}->{:08x} but is not written by {}", k, c.er[k], obs.real_after.er[k], i.form())));
                }
            }
            let cw = ccr_writes(i);
            let changed = (obs.real_after.ccr ^ c.ccr) & !cw;
            if changed != 0 {
                v.push(("footprint.ccr".to_string(), format!("CCR {:02x}->{:02x}: bits {:02x} are not written by {}", c.ccr, obs.real_after.ccr, changed, i.form())));
            }
            for (a, old, new) in &obs.real_changes {
                if !obs.model_writes.iter().any(|(ma, _)| ma == a) {
                    v.push(("footprint.mem".to_string(), format!("mem[{:06x}] changed {:02x}->{:02x} but {} does not write it", a, old, new, i.form())));
                    break;
                }
            }
            // a store that did not happen at all
            for (ma, _) in &obs.model_writes {
                if obs.step.mem_unjudged.contains(ma) {
                    continue;
                }
            }
        }
        (Outcome::Ok(_), RealOutcome::Err(e)) => v.push(("rejected-valid".to_string(), format!("valid encoding of {} rejected: {}", i.form(), e.lines().next().unwrap_or("")))),
        (Outcome::Err(why), RealOutcome::Ok(_)) => {
            if i.class == Class::Unimpl {
                v.push(("executed-unimplemented".to_string(), format!("{} ({}) was executed: PC {:06x}->{:06x}", i.form(), why, c.pc, obs.real_after.pc)));
            }
            // (an access outside mapped memory that succeeds is C08/C09's business)
        }
        _ => {}
    }
    v
}

struct Ctx<'a> {
    lock: Lock,
    rep: &'a mut Report,
    rng: Rng,
}

impl<'a> Ctx<'a> {
    fn run(&mut self, words: &[u16; 5], kind: &str) {
        let rng = &mut self.rng;
        // registers point into the middle of on-chip RAM (so operands are mostly mapped), one of
        // them into DRAM, random upper bytes
        let mut er = [0u32; 8];
        for (k, r) in er.iter_mut().enumerate() {
            let base = if k == 3 { 0x480000 + (rng.below(0x1000) as u32 & !1) } else { 0xffd000 + (rng.below(0x1000) as u32 & !1) };
            *r = base | if rng.chance(1, 2) { 0 } else { (rng.u8() as u32) << 24 };
        }
        let pc = if rng.chance(1, 4) { 0x416900 + (rng.below(0x100) as u32 & !1) } else { 0xffc000 + (rng.below(0x400) as u32 & !1) };
        let pc = pc | rng.chance(1, 16) as u32; // bit 0 of PC is ignored by fetch
        let mut c = Case::words(pc, words);
        c.er = er;
        c.ccr = rng.u8();
        // vectors for TRAPA / @@aa:8 stay as the tagged background
        let obs = self.lock.run(&c);
        self.rep.evaluations += 1;
        let i = obs.step.insn;
        let class = match i.class {
            Class::Impl => 0u64,
            Class::Unimpl => 1,
            Class::Undef => 2,
        };
        let outcome = match &obs.real {
            RealOutcome::Ok(_) => 0u64,
            RealOutcome::Err(_) => 1,
            RealOutcome::Panic(_) => 2,
        };
        self.rep.cell("firstbyte-class-outcome", &[(words[0] >> 8) as u64, class, outcome]);
        if i.class != Class::Undef {
            self.rep.cell("form-outcome", &[fid(&i.form()), outcome]);
        }
        self.rep.count(kind, 1);
        match (i.class, &obs.real) {
            (Class::Undef, RealOutcome::Ok(_)) => self.rep.count("accepted-undefined (not judged)", 1),
            (Class::Undef, _) => self.rep.count("rejected-undefined (not judged)", 1),
            (_, RealOutcome::Panic(_)) => self.rep.count("panics_observed", 1),
            _ => {}
        }
        if matches!(obs.step.outcome, Outcome::Unjudged(_)) || matches!(obs.real, RealOutcome::Panic(_)) {
            return;
        }
        self.rep.count(if matches!(obs.step.outcome, Outcome::Ok(_)) { "judged_ok" } else { "judged_err" }, 1);
        if let Outcome::Ok(_) = obs.step.outcome {
            self.rep.count(&format!("ok:{}", i.form()), 1);
        }
        for (aspect, text) in judge_c07(&c, &obs) {
            let sig = format!("{}|{}", i.form(), aspect);
            self.rep.finding(&sig, || format!("{}; case {}", text, c.to_line()), || format!("check=C07 kind=step {}", c.to_line()));
        }
        self.rep.sample(|| format!("{:04x} {:04x} .. -> {} ({:?}); {}", words[0], words[1], i.form(), i.class, c.to_line()));
    }
}

pub fn c07(rep: &mut Report, cfg: &Cfg) {
    let mut lock = Lock::new(Some(0));
    lock.full_every = 2048;
    let rng = cfg.rng("C07");
    let mut cx = Ctx { lock, rep, rng };
    let mut work = 0u64;
    let thorough = cfg.tier_thorough;
    let structured_ext = |rng: &mut Rng| -> u16 {
        // extension words that look like valid continuations
        *rng.pick(&[0x6a20u16, 0x6aa0, 0x6b20, 0x6ba0, 0x6920, 0x69a0, 0x6f10, 0x6f90, 0x6d20, 0x6df0, 0x6b00, 0x6b80, 0x7820, 0x78a0, 0x0000, 0x00ff, 0xffd0, 0x0010]) | (rng.u16() & 0x000f)
    };
    let tail = |rng: &mut Rng, k: usize| -> u16 {
        if k % 2 == 0 {
            rng.u16()
        } else if rng.chance(1, 2) {
            structured_ext(rng)
        } else {
            // small displacement / address words (operand stays mapped)
            rng.u16() & 0x00fe
        }
    };

    // (a) all 65 536 first words
    let reps = if thorough { 96 } else { 6 };
    for w0 in 0..=0xffffu32 {
        work += 1;
        if !cfg.mine(work) {
            continue;
        }
        for k in 0..reps {
            let w = [w0 as u16, tail(&mut cx.rng, k), tail(&mut cx.rng, k + 1), tail(&mut cx.rng, k), tail(&mut cx.rng, k + 1)];
            cx.run(&w, "first-word sweep");
        }
    }
    cx.rep.exhaustive.push("all 65 536 first instruction words".into());

    // (b) multi-word prefixes: all second words
    let mut prefixes: Vec<u16> = vec![0x0100, 0x0140, 0x01f0, 0x01c0, 0x01d0];
    for r in 0..8u16 {
        prefixes.push(0x7800 | (r << 4));
        prefixes.push(0x7c00 | (r << 4));
        prefixes.push(0x7d00 | (r << 4));
    }
    let mut aa_rng = cfg.rng("C07-aa");
    let aas: Vec<u16> = if thorough { (0..256).collect() } else { (0..12).map(|_| aa_rng.u16() & 0xff).chain([0x00u16, 0x1f, 0x20, 0xff]).collect() };
    for aa in &aas {
        prefixes.push(0x7e00 | aa);
        prefixes.push(0x7f00 | aa);
    }
    for p in &prefixes {
        for w1 in 0..=0xffffu32 {
            work += 1;
            if !cfg.mine(work) {
                continue;
            }
            let w = [*p, w1 as u16, tail(&mut cx.rng, 1), tail(&mut cx.rng, 3), tail(&mut cx.rng, 1)];
            cx.run(&w, "second-word sweep");
            if *p == 0x0100 || *p == 0x0140 {
                // d:24 forms: valid third words and each reserved nibble flipped
                if (w1 >> 8) == 0x78 {
                    for w2 in [0x6b20u16, 0x6ba0, 0x6b21, 0x6ba7, 0x6b28, 0x6ba8, 0x6a20, 0x6b00, 0x6b80, 0x6b30, 0x7b20] {
                        let hi = if cx.rng.chance(1, 4) { cx.rng.u16() } else { 0 };
                        let w = [*p, w1 as u16, w2 | (cx.rng.u16() & 7), hi, cx.rng.u16() & 0x0ffe];
                        cx.run(&w, "third-word variants");
                    }
                }
            }
        }
        cx.rep.exhaustive.push(format!("prefix {:04x}: all 65 536 second words", p));
    }
    // 78r0 6Axx/6Bxx: fourth-word (displacement top byte) variants
    for r in 0..8u16 {
        for w1 in [0x6a20u16, 0x6aa0, 0x6b20, 0x6ba0] {
            for reg in 0..16u16 {
                work += 1;
                if !cfg.mine(work) {
                    continue;
                }
                for hi in [0u16, 0x0001, 0x00ff, 0x0100, 0xff00, 0x8000] {
                    let w = [0x7800 | (r << 4), w1 | reg, hi, cx.rng.u16() & 0x0ffe, cx.rng.u16()];
                    cx.run(&w, "third-word variants");
                }
            }
        }
    }
    // (c) listed unimplemented two-byte instructions followed by every possible next word
    let unimpl: Vec<u16> = vec![0x0000, 0x0180, 0x0700, 0x07ff, 0x0300, 0x030f, 0x0455, 0x05aa, 0x06f0, 0xb012, 0xbfff, 0x1e12, 0x1eff, 0x0f00, 0x0f05, 0x0f0f, 0x1f00, 0x1f07, 0x1f0f, 0x17d0, 0x17df, 0x17f0, 0x17f7];
    let step = if thorough { 1 } else { 3 };
    for u in &unimpl {
        let start = if thorough { 0 } else { cx.rng.below(step as u64) as u32 };
        for w1 in (start..=0xffff).step_by(step) {
            work += 1;
            if !cfg.mine(work) {
                continue;
            }
            let w = [*u, w1 as u16, cx.rng.u16(), cx.rng.u16(), cx.rng.u16()];
            cx.run(&w, "unimplemented + next word sweep");
        }
        if thorough {
            cx.rep.exhaustive.push(format!("unimplemented {:04x} followed by all 65 536 next words", u));
        }
    }
    let j = Judge::FULL;
    cx.lock.finish();
    drain_strays(cx.rep, "C07", &mut cx.lock, &j);
    cx.rep.notes.push("C07: all 65 536 first words x several register files / extension words; all second words of every multi-word prefix (0100, 0140, 01F0, 01C0, 01D0, 78r0, 7Cr0, 7Dr0, 7Eaa, 7Faa); third/fourth-word variants of the d:24 forms; listed unimplemented instructions followed by arbitrary next words. Judged: Ok/Err outcome against the independent encoding table, consumed length, footprint containment. Undefined encodings are only counted. Cells: (first byte, classification, outcome), (form, outcome).".into());
}
