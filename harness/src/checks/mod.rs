pub mod busmap;
pub mod common;
pub mod control;
pub mod decoder;
pub mod elfcheck;
pub mod flow;
pub mod irq;
pub mod memops;
pub mod nocrash;
pub mod periph;
pub mod progwalk;
pub mod regops;
pub mod runloop;
pub mod syscall;

use crate::gen::Group;
use crate::util::{Cfg, Report};

pub fn run(id: &str, cfg: &Cfg) -> Option<Report> {
    let mut rep = Report::new(id);
    match id {
        "C01" => memops::c01(&mut rep, cfg),
        "C04" => memops::c04(&mut rep, cfg),
        "C05" => flow::c05(&mut rep, cfg),
        "C06" => flow::c06(&mut rep, cfg),
        "C07" => decoder::c07(&mut rep, cfg),
        "C08" => memops::c08(&mut rep, cfg),
        "C20" => memops::c20(&mut rep, cfg),
        "C11" => elfcheck::run(&mut rep, cfg, "C11"),
        "C12" => elfcheck::run(&mut rep, cfg, "C12"),
        "C10" => irq::c10(&mut rep, cfg),
        "C14" => syscall::c14(&mut rep, cfg),
        "C18" => control::c18(&mut rep, cfg),
        "C15" => nocrash::c15(&mut rep, cfg),
        "C13" => runloop::c13(&mut rep, cfg),
        "C09" => busmap::c09(&mut rep, cfg),
        "C19" => busmap::c19(&mut rep, cfg),
        "C16" => periph::c16(&mut rep, cfg),
        "C17" => periph::c17(&mut rep, cfg),
        "C02" => regops::run(&mut rep, cfg, Group::Arith, "C02"),
        "C03" => regops::run(&mut rep, cfg, Group::Logic, "C03"),
        _ => return None,
    }
    Some(rep)
}

/// Re-execute a witness. Returns (reproduced?, text).
pub fn replay(line: &str) -> (bool, String) {
    let mut check = "";
    let mut kind = "";
    for tok in line.split_whitespace() {
        if let Some(v) = tok.strip_prefix("check=") {
            check = v;
        }
        if let Some(v) = tok.strip_prefix("kind=") {
            kind = v;
        }
    }
    match kind {
        "step" => {
            let Some(case) = crate::mon::Case::from_line(line) else { return (false, "unparsable case".into()) };
            let mut lock = crate::mon::Lock::new(Some(0));
            lock.full_every = 1;
            lock.judge_cost = check == "C20";
            let obs = lock.run(&case);
            let mut out = format!("check {} step replay: {}\n  instruction: {}\n  reference outcome: {:?}\n  emulator outcome: {:?}\n", check, case.to_line(), obs.step.insn.form(), obs.step.outcome, obs.real);
            for d in &obs.diffs {
                out.push_str(&format!("  DIFF {} ({})\n", common::describe(d), d.aspect(&obs.step)));
            }
            for s in &lock.strays {
                out.push_str(&format!("  STRAY mem[{:06x}] = {:02x}, reference {:02x}\n", s.1, s.2, s.3));
            }
            let bad = !obs.diffs.is_empty() || !lock.strays.is_empty() || matches!(obs.real, crate::mon::RealOutcome::Panic(_));
            (bad, out)
        }
        "elf" => elfcheck::replay(line),
        "irq" => irq::replay(line),
        "program" | "lines" | "irqstep" | "maxwait" => nocrash::replay(line),
        "syscall" | "child" => syscall::replay(line),
        "control" | "e2e" => control::replay(line),
        "runloop" | "binary" => runloop::replay(line),
        "ports" => periph::replay_ports(line),
        "timer" => periph::replay_timer(line),
        "history" => {
            let seed: u64 = line.split_whitespace().find_map(|t| t.strip_prefix("seed=")).and_then(|v| v.parse().ok()).unwrap_or(0);
            let mut rep = crate::util::Report::new(check);
            let bad = busmap::history_session(&mut rep, seed, true);
            let mut out = String::new();
            for f in rep.findings.values() {
                out.push_str(&format!("  FINDING {}: {}\n", f.sig, f.detail));
            }
            (bad, out)
        }
        "cost" => {
            // C19 single evaluation: k=<kind> count=<n> addr=<hex> abwcr=.. astcr=.. wcrh=.. wcrl=.. drcra=..
            let get = |key: &str| line.split_whitespace().find_map(|t| t.strip_prefix(key)).unwrap_or("").to_string();
            let hx = |key: &str| u32::from_str_radix(&get(key), 16).unwrap_or(0);
            use crate::refmodel::cost::{cost1, BusRegs, Kind, ABWCR, ASTCR, DRCRA, WCRH, WCRL};
            let b = BusRegs { abwcr: hx("abwcr=") as u8, astcr: hx("astcr=") as u8, wcrh: hx("wcrh=") as u8, wcrl: hx("wcrl=") as u8, drcra: hx("drcra=") as u8 };
            let (kind, st) = match get("k=").as_str() {
                "I" => (Kind::I, crate::cpu::StateType::I),
                "J" => (Kind::J, crate::cpu::StateType::J),
                "K" => (Kind::K, crate::cpu::StateType::K),
                "L" => (Kind::L, crate::cpu::StateType::L),
                "M" => (Kind::M, crate::cpu::StateType::M),
                _ => (Kind::N, crate::cpu::StateType::N),
            };
            let count: u8 = get("count=").parse().unwrap_or(1);
            let addr = hx("addr=");
            let mut cpu = crate::cpu::Cpu::new();
            for (r, v) in [(ABWCR, b.abwcr), (ASTCR, b.astcr), (WCRH, b.wcrh), (WCRL, b.wcrl), (DRCRA, b.drcra)] {
                let _ = cpu.bus.write(r, v);
            }
            let got = cpu.calc_state_with_addr(st, count, addr).ok().map(|v| v as u32);
            let want = cost1(kind, addr, &b).map(|c| c * count as u32);
            (got != want, format!("calc_state_with_addr({:?}, {}, {:06x}) = {:?}, reference {:?} under {:?}\n", kind, count, addr, got, want, b))
        }
        "cost-history" | "bus" => {
            // these witnesses are positions inside a seeded sweep: re-run the shard that found them
            let seed: u64 = line.split_whitespace().find_map(|t| t.strip_prefix("seed=")).and_then(|v| v.parse().ok()).unwrap_or(1);
            let shard: u64 = line.split_whitespace().find_map(|t| t.strip_prefix("shard=")).and_then(|v| v.parse().ok()).unwrap_or(0);
            let cfg = crate::util::Cfg { tier_thorough: false, seed, shard, nshards: if check == "C09" { 4 } else { 16 }, profile: "release".into(), scale: 1.0 };
            match run(check, &cfg) {
                Some(rep) => {
                    let mut out = String::new();
                    for f in rep.findings.values() {
                        out.push_str(&format!("  FINDING {}: {}\n", f.sig, f.detail));
                    }
                    (!rep.findings.is_empty(), out)
                }
                None => (false, "unknown check".into()),
            }
        }
        "periph" => {
            let ops = line.split_whitespace().find_map(|t| t.strip_prefix("ops=")).unwrap_or("");
            let mut cpu = crate::cpu::Cpu::new();
            let mut bad = false;
            let mut out = String::new();
            for op in ops.split(',') {
                let r = std::panic::catch_unwind(std::panic::AssertUnwindSafe(|| {
                    if let Some(x) = op.strip_prefix('w') {
                        if let Some((a, v)) = x.split_once('=') {
                            let _ = cpu.bus.write(u32::from_str_radix(a, 16).unwrap_or(0), u8::from_str_radix(v, 16).unwrap_or(0));
                        }
                    } else if let Some(x) = op.strip_prefix("pin") {
                        if let Some((p, v)) = x.split_once('=') {
                            cpu.bus.write_port(u8::from_str_radix(p, 16).unwrap_or(0), u8::from_str_radix(v, 16).unwrap_or(0));
                        }
                    } else if let Some(x) = op.strip_prefix('e') {
                        let _ = cpu.verif_update_modules(x.parse().unwrap_or(1));
                    }
                }));
                if r.is_err() {
                    let p = crate::util::take_panic().unwrap_or_default();
                    out.push_str(&format!("  panic at {}:{}: {} on operation {}\n", p.file, p.line, p.msg, op));
                    bad = true;
                    break;
                }
            }
            (bad, out)
        }
        "chain" => {
            let seed: u64 = line.split_whitespace().find_map(|t| t.strip_prefix("seed=")).and_then(|v| v.parse().ok()).unwrap_or(0);
            let mut rep = crate::util::Report::new(check);
            let bad = memops::chain_session(&mut rep, seed, true);
            let mut out = String::new();
            for f in rep.findings.values() {
                out.push_str(&format!("  FINDING {}: {}\n", f.sig, f.detail));
            }
            (bad, out)
        }
        "syscallhistory" => {
            let seed: u64 = line.split_whitespace().find_map(|t| t.strip_prefix("seed=")).and_then(|v| v.parse().ok()).unwrap_or(0);
            let mut rep = crate::util::Report::new(check);
            let bad = memops::syscall_cost_history(&mut rep, seed, true);
            let mut out = String::new();
            for f in rep.findings.values() {
                out.push_str(&format!("  FINDING {}: {}\n", f.sig, f.detail));
            }
            (bad, out)
        }
        "syncgrid" => {
            let seed: u64 = line.split_whitespace().find_map(|t| t.strip_prefix("seed=")).and_then(|v| v.parse().ok()).unwrap_or(0);
            let mut rep = crate::util::Report::new(check);
            let bad = runloop::sync_grid_case(&mut rep, seed, true);
            let mut out = String::new();
            for f in rep.findings.values() {
                out.push_str(&format!("  FINDING {}: {}\n", f.sig, f.detail));
            }
            (bad, out)
        }
        "longrun" => {
            let mut rep = crate::util::Report::new(check);
            println!("check C15 long run: 2^32 + 2^20 instructions on one machine (takes minutes; meaningful in the ovf build)");
            nocrash::long_run(&mut rep, (1u64 << 32) + (1 << 20), 1);
            let mut out = String::new();
            for f in rep.findings.values() {
                out.push_str(&format!("  FINDING {}: {}\n", f.sig, f.detail));
            }
            (!rep.findings.is_empty(), out)
        }
        "progwalk" => {
            let seed: u64 = line.split_whitespace().find_map(|t| t.strip_prefix("seed=")).and_then(|v| v.parse().ok()).unwrap_or(0);
            let mut rep = crate::util::Report::new(check);
            let (judge, groups): (common::Judge, Vec<Group>) = match check {
                "C01" => (common::Judge::FULL.only(common::is_mov), vec![Group::Mov]),
                "C02" => (common::Judge::FULL.only(common::is_arith), vec![Group::Arith]),
                "C03" => (common::Judge::FULL.only(common::is_logic), vec![Group::Logic]),
                "C04" => (common::Judge::FULL.only(common::is_bit), vec![Group::Bit]),
                "C08" => (memops::c08_judge(), vec![Group::Mov, Group::Bit, Group::Stc]),
                _ => (common::Judge::COST, vec![Group::Mov, Group::Arith, Group::Logic, Group::Bit, Group::Stc]),
            };
            println!("check {} program walk seed={}", check, seed);
            let bad = progwalk::progwalk_session(&mut rep, check, &judge, &groups, seed, true);
            let mut out = String::new();
            for f in rep.findings.values() {
                out.push_str(&format!("  FINDING {}: {}\n", f.sig, f.detail));
            }
            (bad, out)
        }
        "calltree" | "excwalk" => {
            let seed: u64 = line.split_whitespace().find_map(|t| t.strip_prefix("seed=")).and_then(|v| v.parse().ok()).unwrap_or(0);
            let mut rep = crate::util::Report::new(check);
            let chk: &'static str = if check == "C05" { "C05" } else { "C06" };
            println!("check {} {} session seed={}", check, kind, seed);
            let bad = if kind == "calltree" { flow::calltree_session(&mut rep, chk, seed, true) } else { flow::excwalk_session(&mut rep, chk, seed, true) };
            let mut out = String::new();
            for f in rep.findings.values() {
                out.push_str(&format!("  FINDING {}: {}\n", f.sig, f.detail));
            }
            (bad, out)
        }
        _ => (false, format!("unknown replay kind '{}'", kind)),
    }
}
