//! C15 — guest-triggered faults surface as errors, never as a crash of the emulator.
//! Observation = a panic (catch_unwind + panic hook) while executing guest-controlled input.
//! Both build profiles are run by the driver; a shard that dies (abort) is reported by the driver.

use crate::cpu::Cpu;
use crate::gen::{self, fill, Fields};
use crate::mon::{real_poke, Case, Lock, RealOutcome};
use crate::refmodel::cost::BusRegs;
use crate::refmodel::decode::Class;
use crate::runrig::{run_with_hook, shared, RunEnd, RunRig};
use crate::util::{panic_sig, Cfg, Report, Rng};
use std::panic::{catch_unwind, AssertUnwindSafe};

fn adversaries() -> Vec<u32> {
    vec![
        0, 1, 2, 3, 4, 0xffff_ffff, 0xffff_fffe, 0x00ff_ffff, 0x00ff_fffe, 0x0100_0000, 0x8000_0000, 0x7fff_ffff, 0x0000_00ff, 0x0000_0100, 0x0040_0000, 0x003f_ffff, 0x005f_ffff, 0x0060_0000, 0x00ff_bf20,
        0x00ff_bf1f, 0x00ff_ff1f, 0x00ff_ff20, 0x00ff_ffe9, 0x00ff_ffea, 0x00fe_e000, 0x00fe_e0ff, 0x00fe_e100, 0x00ff_bf21, 0x0040_0001, 0x005f_fffd, 0xff40_0000, 0x80ff_bf20,
    ]
}

fn placements() -> Vec<u32> {
    // first and last bytes of every mapped region (multi-word fetches run off the end)
    vec![
        0x000000, 0x0000f6, 0x0000f8, 0x0000fa, 0x0000fc, 0x0000fe, 0x400000, 0x5ffff6, 0x5ffff8, 0x5ffffa, 0x5ffffc, 0x5ffffe, 0xfee000, 0xfee0f8, 0xfee0fa, 0xfee0fc, 0xfee0fe, 0xffbf20, 0xffff16, 0xffff18, 0xffff1a,
        0xffff1c, 0xffff1e, 0xffff20, 0xffffe0, 0xffffe2, 0xffffe4, 0xffffe6, 0xffffe8, 0x416900, 0xffc000,
    ]
}

fn settings() -> Vec<BusRegs> {
    vec![
        BusRegs { abwcr: 0xff, astcr: 0xfb, wcrh: 0xff, wcrl: 0xcf, drcra: 0xe0 },
        BusRegs { abwcr: 0xff, astcr: 0xff, wcrh: 0xff, wcrl: 0xff, drcra: 0xe0 }, // maximal waits everywhere
        BusRegs { abwcr: 0x00, astcr: 0x00, wcrh: 0x00, wcrl: 0x00, drcra: 0x00 },
        BusRegs { abwcr: 0xaa, astcr: 0x55, wcrh: 0x5a, wcrl: 0xa5, drcra: 0x60 },
    ]
}

fn record_panic(rep: &mut Report, what: &str, obs_real: &RealOutcome, class: &str, detail: impl FnOnce() -> String, replay: impl FnOnce() -> String) -> bool {
    if let RealOutcome::Panic(p) = obs_real {
        let sig = format!("{}|{}", what, panic_sig(p));
        let d = detail();
        rep.finding(&sig, || format!("panic at {}:{}: {} — {} [{}]", p.file, p.line, p.msg, d, class), replay);
        true
    } else {
        false
    }
}

pub fn c15(rep: &mut Report, cfg: &Cfg) {
    let mut rng = cfg.rng("C15");
    let adv = adversaries();
    let places = placements();
    let sets = settings();
    let mut lock = Lock::new(Some(0));
    lock.full_every = 1 << 30; // memory is not judged here
    let mut work = 0u64;
    let profile = cfg.profile.clone();
    let prof = if profile == "ovf" { 1u64 } else { 0 };
    // ---- (a) all first words x adversarial register files x placements x bus settings
    let reps = cfg.n(3, 64);
    for w0 in 0..=0xffffu32 {
        work += 1;
        if !cfg.mine(work) {
            continue;
        }
        for k in 0..reps {
            let a = adv[(w0 as usize + k as usize * 7) % adv.len()];
            let pc = places[(w0 as usize / 3 + k as usize * 5) % places.len()];
            let mut ws = [w0 as u16, 0, 0, 0, 0];
            for (j, w) in ws.iter_mut().enumerate().skip(1) {
                *w = match (k as usize + j) % 4 {
                    0 => rng.u16(),
                    1 => 0xffff,
                    2 => 0x0000,
                    _ => (a >> (16 * (j as u32 % 2))) as u16,
                };
            }
            let mut c = Case::words(pc, &ws);
            c.er = [a; 8];
            if k % 3 == 1 {
                // mixed file: each register its own adversary
                for (j, r) in c.er.iter_mut().enumerate() {
                    *r = adv[(w0 as usize + j * 11 + k as usize) % adv.len()];
                }
            }
            c.ccr = *rng.pick(&[0u8, 0xff, 0x01, 0x80, 0x2f, 0x55]);
            c.bus(&sets[(k as usize) % sets.len()]);
            let obs = lock.run(&c);
            rep.evaluations += 1;
            let class = match obs.step.insn.class {
                Class::Impl => "implemented",
                Class::Unimpl => "unimplemented",
                Class::Undef => "undefined",
            };
            let region = crate::refmodel::mem::locate(pc).map(|x| x.0 as u64).unwrap_or(9);
            let outcome = match obs.real {
                RealOutcome::Ok(_) => 0u64,
                RealOutcome::Err(_) => 1,
                RealOutcome::Panic(_) => 2,
            };
            rep.cell("opclass-adversary-region-profile", &[(w0 >> 8) as u64, (a % 251) as u64 % 8, region, prof]);
            rep.cell("outcome", &[(w0 >> 12) as u64, outcome, prof]);
            let form = if obs.step.insn.class == Class::Undef { "undefined-encoding".to_string() } else { obs.step.insn.form() };
            let _ = &form;
            record_panic(rep, "step", &obs.real, class, || format!("{} {}", form, c.to_line()), || format!("check=C15 kind=step {}", c.to_line()));
            rep.sample(|| format!("{:04x} at {:06x} registers {:08x}: {:?}", w0, pc, a, obs.real));
        }
    }
    rep.exhaustive.push(format!("all 65 536 first instruction words ({} profile)", profile));
    // ---- (b) every implemented form with adversarial address registers / operands
    for (_, pat) in gen::FORMS {
        for k in 0..cfg.share(cfg.n(600, 100_000)) {
            let mut f = Fields::random(&mut rng);
            f.abs = adv[k as usize % adv.len()];
            f.disp = *rng.pick(&adv);
            f.imm = *rng.pick(&adv);
            let ws = fill(pat, &f);
            let pc = *rng.pick(&places);
            let mut c = Case::words(pc, &ws);
            for r in c.er.iter_mut() {
                *r = *rng.pick(&adv);
            }
            c.ccr = rng.u8();
            c.bus(rng.pick(&sets));
            let obs = lock.run(&c);
            rep.evaluations += 1;
            rep.cell("form-profile", &[crate::util::hash_str(pat), prof]);
            record_panic(rep, "step", &obs.real, "implemented", || format!("{} {}", obs.step.insn.form(), c.to_line()), || format!("check=C15 kind=step {}", c.to_line()));
        }
    }
    // ---- (c) interrupt acceptance with adversarial stack pointers / vectors
    for k in 0..cfg.share(cfg.n(4_000, 100_000)) {
        let mut c = Case::words(0xffc000, &[]);
        for r in c.er.iter_mut() {
            *r = *rng.pick(&adv);
        }
        c.ccr = rng.u8() & 0x7f;
        let v = (k % 256) as u8;
        let obs = lock.run_action(&c, crate::mon::Action::Interrupt(v));
        rep.evaluations += 1;
        rep.cell("irq-vector-profile", &[v as u64 / 16, prof]);
        record_panic(rep, "interrupt-acceptance", &obs.real, "interrupt", || format!("vector {} {}", v, c.to_line()), || format!("check=C15 kind=irqstep v={} {}", v, c.to_line()));
    }
    // ---- (f) the MES system-call trap with adversarial argument blocks
    for k in 0..cfg.share(cfg.n(6_000, 150_000)) {
        let pc = *rng.pick(&[0xffc000u32, 0x416900, 0xffff1e, 0x5ffffe]);
        let mut c = Case::words(pc, &[0x5700]);
        for r in c.er.iter_mut() {
            *r = *rng.pick(&adv);
        }
        c.er[0] = *rng.pick(&[104u32, 113, 104, 113, 0, 105, 0xffff_ffff]);
        let argp = match k % 5 {
            0 => 0xffe900,
            1 => 0x5ffff4, // block ends at the last byte of DRAM
            2 => 0x5ffff8, // block runs off the end
            3 => 0xffff14,
            _ => *rng.pick(&adv),
        };
        c.er[1] = argp;
        for j in 0..3u32 {
            let v = match rng.below(4) {
                0 => rng.below(70) as u32,
                1 => *rng.pick(&[0x5ffff0u32, 0xffff10, 0xffbf20, 0x400000, 0xffffe0]),
                _ => *rng.pick(&adv),
            };
            let v = if j == 2 && rng.chance(1, 2) { rng.below(64) as u32 } else { v };
            c.patch32(argp.wrapping_add(4 * j) & 0xffffff, v);
        }
        let mut textclass = 0;
        if k % 8 == 3 && c.er[0] == 104 {
            // a well-formed write of a long valid text (the host side has its own buffer sizes)
            let len = match rng.below(3) {
                0 => *rng.pick(&[1024usize, 4096, 8192, 16384, 65536]) - 3 + rng.below(7) as usize,
                _ => rng.below(20000) as usize,
            };
            let text = super::syscall::utf8_text(&mut rng, len);
            let buf = 0x480000u32 + rng.below(0x1000) as u32;
            for (i, b) in text.iter().enumerate() {
                c.patches.push((buf + i as u32, *b));
            }
            let argp = 0xffe900u32;
            c.er[1] = argp;
            c.patch32(argp, 1);
            c.patch32(argp + 4, buf);
            c.patch32(argp + 8, len as u32);
            textclass = 1 + (len as u64 / 4096).min(16);
        }
        c.ccr = rng.u8();
        let obs = lock.run(&c);
        rep.evaluations += 1;
        rep.cell("syscall-id-argclass-profile", &[c.er[0] as u64 % 7, k % 5, prof, textclass]);
        record_panic(rep, "step", &obs.real, "system call", || format!("TRAPA #0 ER0={} {}", c.er[0], c.to_line()), || format!("check=C15 kind=step {}", c.to_line()));
    }
    // ---- (g) every form under guest-programmed maximal wait states, through the real run()
    for (fi, (_, pat)) in gen::FORMS.iter().enumerate() {
        work += 1;
        if !cfg.mine(work) {
            continue;
        }
        for k in 0..cfg.n(2, 12) {
            run_maxwait_program(rep, pat, fi as u64 * 100 + k + cfg.seed * 7919, prof);
        }
    }
    // ---- (h) peripherals driven the way a guest drives them: stores to every on-chip register
    // (all 256 values of the timer control registers, port DDR/DR, bus controller) interleaved with
    // elapsed-state updates and pin changes
    for round in 0..cfg.share(cfg.n(600, 20_000)) {
        let mut cpu = Cpu::new();
        let n = 20 + rng.below(60);
        let mut trace: Vec<String> = vec![];
        let mut panicked = None;
        for k in 0..n {
            let r = match rng.below(5) {
                0 | 1 => {
                    let a = match rng.below(4) {
                        0 => 0xffff80 + rng.below(0x1a) as u32,
                        1 => 0xfee000 + rng.below(0x30) as u32,
                        2 => 0xffffd0 + rng.below(0x0b) as u32,
                        _ => 0xffff20 + rng.below(0xca) as u32,
                    };
                    let v = if a == 0xffff80 && k < 2 { (round as u8).wrapping_add(k as u8) } else { rng.u8() };
                    trace.push(format!("w{:x}={:02x}", a, v));
                    std::panic::catch_unwind(std::panic::AssertUnwindSafe(|| {
                        let _ = cpu.bus.write(a, v);
                    }))
                }
                2 => {
                    let (p, v) = (rng.below(14) as u8, rng.u8());
                    trace.push(format!("pin{:x}={:02x}", p, v));
                    std::panic::catch_unwind(std::panic::AssertUnwindSafe(|| cpu.bus.write_port(p, v)))
                }
                _ => {
                    let s = *rng.pick(&[1u8, 2, 7, 8, 9, 64, 128, 254, 255]);
                    trace.push(format!("e{}", s));
                    std::panic::catch_unwind(std::panic::AssertUnwindSafe(|| {
                        let _ = cpu.verif_update_modules(s);
                    }))
                }
            };
            if r.is_err() {
                panicked = crate::util::take_panic();
                break;
            }
        }
        rep.evaluations += 1;
        rep.cell("peripheral-history-profile", &[(round % 256) as u64, prof]);
        if let Some(p) = panicked {
            rep.finding(&format!("peripheral|{}", panic_sig(&p)), || format!("panic at {}:{}: {} after the register history {}", p.file, p.line, p.msg, trace.join(" ")), || format!("check=C15 kind=periph ops={}", trace.join(",")));
        }
    }
    // ---- (d) random programs and jumps to unmapped / odd targets through the real run()
    for _ in 0..cfg.share(cfg.n(400, 60_000)) {
        let seed = rng.next();
        run_fuzz_program(rep, seed, prof);
    }
    // ---- (e) control-channel lines from a fuzzing grammar into a running run()
    for _ in 0..cfg.share(cfg.n(200, 30_000)) {
        let seed = rng.next();
        run_fuzz_lines(rep, seed, prof);
    }
    // ---- (i) long horizon in the overflow-checking build: more than 2^32 instructions on ONE machine
    // (a counter that is too narrow panics when it wraps); thorough tier, one shard
    let long_steps: u64 = match std::env::var("H8MON_LONG_STEPS").ok().and_then(|s| s.parse().ok()) {
        Some(n) => n,
        None if cfg.tier_thorough && cfg.shard == 0 && profile == "ovf" && cfg.scale >= 1.0 => (1u64 << 32) + (1 << 20),
        None => 0,
    };
    if long_steps > 0 {
        long_run(rep, long_steps, prof);
    }
    rep.notes.push("C15: (i) in the thorough tier one overflow-checking shard executes more than 2^32 instructions on one machine. (a) all 65 536 first words x adversarial register files (0, 1, 2, 3, 0xFFFFFFFF, 0x00FFFFFF, region edges +-1, odd values) x CCR pool x four bus-controller settings (incl. maximal waits), executed from the first and last bytes of every mapped region; (b) every implemented form with adversarial fields and registers; (c) interrupt acceptance with adversarial SP and all 256 vector numbers; (d) seeded random programs (valid forms, random words, jumps/returns to unmapped or odd targets, stack at region edges) through the real run(); (e) control-channel lines from a fuzzing grammar (valid, truncated, extra fields, huge/negative numbers, empty, non-ASCII) into a running run(). Every panic is a finding keyed by file + enclosing function + message class. Both build profiles (release; release + overflow-checks + debug-assertions). Cells: (opcode class, adversary, code region, profile), outcomes, (form, profile), distinct panic signatures.".into());
}

pub fn run_fuzz_program(rep: &mut Report, seed: u64, prof: u64) -> bool {
    let mut rng = Rng::new(seed);
    let adv = adversaries();
    let mut rig = RunRig::new();
    let base = *rng.pick(&[0x416900u32, 0x5ff000, 0x5fff80, 0xffc000, 0xfffe00, 0xffff00]);
    let n = 4 + rng.below(60);
    let mut words: Vec<u16> = vec![];
    for _ in 0..n {
        match rng.below(10) {
            0 => words.push(rng.u16()),
            1 => {
                // jump / return to an adversarial target
                let t = *rng.pick(&adv);
                words.extend_from_slice(&[0x7a00 | 3, (t >> 16) as u16, t as u16]);
                words.push(*rng.pick(&[0x5930u16, 0x5d30, 0x5470, 0x5670]));
            }
            2 => {
                let t = *rng.pick(&adv);
                words.extend_from_slice(&[0x5a00 | ((t >> 16) & 0xff) as u16, t as u16]);
            }
            3 => {
                // move the stack pointer somewhere nasty, then use it
                let t = *rng.pick(&adv);
                words.extend_from_slice(&[0x7a07, (t >> 16) as u16, t as u16]);
                words.push(*rng.pick(&[0x5500u16 | 2, 0x5470, 0x5710, 0x0100]));
                words.push(*rng.pick(&[0x6df0u16, 0x6d70, 0x6df7]));
            }
            _ => {
                let (_, pat) = *rng.pick(gen::FORMS);
                let mut f = Fields::random(&mut rng);
                if rng.chance(1, 3) {
                    f.abs = *rng.pick(&adv);
                    f.disp = *rng.pick(&adv);
                }
                words.extend(fill(pat, &f));
            }
        }
    }
    for (i, w) in words.iter().enumerate() {
        real_poke(&mut rig.cpu, base + 2 * i as u32, (w >> 8) as u8);
        real_poke(&mut rig.cpu, base + 2 * i as u32 + 1, *w as u8);
    }
    for r in rig.cpu.er.iter_mut() {
        *r = if rng.chance(1, 2) { *rng.pick(&adv) } else { 0xffd000 + (rng.below(0x800) as u32 & !1) };
    }
    rig.cpu.er[2] = base;
    rig.cpu.er[7] = *rng.pick(&[0xffe000u32, 0xffbf24, 0xffff20, 0x400004, 0x600000, 0x5ffffc, 0xffbf20, 2, 0]);
    rig.cpu.exit_addr = base + 2 * words.len() as u32;
    let st = shared(0u64);
    let s2 = st.clone();
    let tx = rig.to_emu.clone();
    let inject = rng.chance(1, 3);
    let vec_inject = rng.u8();
    let tick = Box::new(move |cpu: &mut Cpu| {
        let mut t = s2.borrow_mut();
        *t += 1;
        if inject && *t == 3 {
            cpu.verif_request_interrupt(vec_inject);
        }
        if *t > 3000 {
            let _ = tx.send("cmd:stop".into());
        }
    });
    let end = run_with_hook(&mut rig.cpu, tick);
    rep.evaluations += 1;
    let endk = match &end {
        RunEnd::Ok => 0u64,
        RunEnd::Err(_) => 1,
        RunEnd::Panic(_) => 2,
    };
    rep.cell("program-end-region-profile", &[endk, crate::refmodel::mem::locate(base).map(|x| x.0 as u64).unwrap_or(9), prof]);
    rep.count("run_loop_iterations", *st.borrow());
    if let RunEnd::Panic(m) = &end {
        // the panic hook recorded file/line inside the message
        let mut parts = m.splitn(3, ':');
        let file = parts.next().unwrap_or("").to_string();
        let line: u32 = parts.next().and_then(|l| l.trim().parse().ok()).unwrap_or(0);
        let msg = parts.next().unwrap_or("").trim().to_string();
        let p = crate::util::PanicInfo { file, line, msg };
        let sig = format!("run|{}", panic_sig(&p));
        rep.finding(&sig, || format!("run() panicked at {}:{}: {} on a generated program (seed {}, {} words at {:06x})", p.file, p.line, p.msg, seed, words.len(), base), || format!("check=C15 kind=program seed={}", seed));
        return true;
    }
    false
}

/// a program that programs the bus controller for 8-bit, 3-state, 3-wait everywhere and then
/// executes one instruction of the given form with operands in DRAM
pub fn run_maxwait_program(rep: &mut Report, pat: &str, seed: u64, prof: u64) -> bool {
    let mut rng = Rng::new(seed);
    let mut rig = RunRig::new();
    let base = 0x416900u32;
    let mut words: Vec<u16> = vec![0xf8ff];
    for reg in [0xfee020u32, 0xfee021, 0xfee022, 0xfee023] {
        words.extend_from_slice(&[0x6aa8, (reg >> 16) as u16, reg as u16]);
    }
    let o = crate::gen::BuildOpts { ea_regions: vec![crate::gen::EaRegion::Dram], sp_regions: vec![crate::gen::EaRegion::Dram], top: Some(0), pc: Some(base + 2 * words.len() as u32), ..Default::default() };
    let Some(b) = crate::gen::build_case(pat, &mut rng, &o) else { return false };
    let ninsn = b.case.code.len() / 2;
    for ch in b.case.code.chunks(2) {
        words.push(((ch[0] as u16) << 8) | ch[1] as u16);
    }
    for (i, w) in words.iter().enumerate() {
        real_poke(&mut rig.cpu, base + 2 * i as u32, (w >> 8) as u8);
        real_poke(&mut rig.cpu, base + 2 * i as u32 + 1, *w as u8);
    }
    for (a, v) in &b.case.patches {
        real_poke(&mut rig.cpu, *a, *v);
    }
    rig.cpu.er = b.case.er;
    rig.cpu.er[2] = base;
    rig.cpu.exit_addr = base + 2 * words.len() as u32;
    let st = shared(0u64);
    let s2 = st.clone();
    let tx = rig.to_emu.clone();
    let ccr = b.case.ccr;
    let after_setup = 5u64;
    let er = b.case.er;
    let tick = Box::new(move |cpu: &mut Cpu| {
        let mut t = s2.borrow_mut();
        *t += 1;
        if *t == after_setup + 1 {
            // registers for the instruction under test (R0L was used by the set-up)
            cpu.er = er;
            cpu.verif_set_ccr(ccr & 0x7f);
        }
        if *t > after_setup + 2 {
            let _ = tx.send("cmd:stop".into());
        }
    });
    let _ = ninsn;
    let end = run_with_hook(&mut rig.cpu, tick);
    rep.evaluations += 1;
    rep.cell("maxwait-form-profile", &[crate::util::hash_str(pat), prof]);
    if let RunEnd::Panic(m) = &end {
        let mut parts = m.splitn(3, ':');
        let file = parts.next().unwrap_or("").to_string();
        let line: u32 = parts.next().and_then(|l| l.trim().parse().ok()).unwrap_or(0);
        let msg = parts.next().unwrap_or("").trim().to_string();
        let p = crate::util::PanicInfo { file, line, msg };
        rep.finding(&format!("run|{}", panic_sig(&p)), || format!("run() panicked at {}:{}: {} executing {} after the guest programmed maximal wait states (seed {})", p.file, p.line, p.msg, b.insn.form(), seed), || format!("check=C15 kind=maxwait seed={} pat={}", seed, pat.replace(' ', "_")));
        return true;
    }
    false
}

pub fn fuzz_line(rng: &mut Rng) -> String {
    let heads = ["cmd", "u8", "ioport", "sync", "stdout", "ready", "", "CMD", "u16", "\u{3042}"];
    let fields = [
        "", "pause", "start", "stop", "0", "1", "ff", "FF", "100", "ffffffff", "100000000", "ffffffffffffffffffff", "-1", "+1", "0x10", "zz", " ", "ffc100", "fee000", "ffffd0", "ffff80", "ffff88", "fee020", "400000",
        "5fffff", "600000", "ffffe9", "ffffea", "b", "c", "\u{1F600}", "1e3", "1.5", "\t", "00000000000000000001",
    ];
    match rng.below(8) {
        0 => String::new(),
        1 => (0..rng.below(40)).map(|_| *rng.pick(&[':', 'a', 'f', '0', '9', 'u', '8', 'c', 'm', 'd', ' ', '\u{e9}', '-'])).collect(),
        _ => {
            let mut s = rng.pick(&heads).to_string();
            for _ in 0..rng.below(5) {
                s.push(':');
                let f: &&str = rng.pick(&fields[..]);
                s.push_str(f);
            }
            s
        }
    }
}

pub fn run_fuzz_lines(rep: &mut Report, seed: u64, prof: u64) -> bool {
    let mut rng = Rng::new(seed);
    let mut rig = RunRig::new();
    let spin = 0x420000u32;
    real_poke(&mut rig.cpu, spin, 0x40);
    real_poke(&mut rig.cpu, spin + 1, 0xfe);
    rig.cpu.er[2] = spin;
    rig.cpu.er[7] = 0xffe000;
    rig.cpu.exit_addr = 0xfffff0;
    let n = 20 + rng.below(200) as usize;
    let mut lines: Vec<String> = (0..n).map(|_| fuzz_line(&mut rng)).collect();
    // keep the guest's own code intact and do not stop early: those are legitimate effects
    lines.retain(|l| !(l.starts_with("cmd:stop") || l.to_lowercase().contains("420000") || l.to_lowercase().contains("420001")));
    let st = shared((0u64, 0usize));
    let s2 = st.clone();
    let tx = rig.to_emu.clone();
    let l2 = lines.clone();
    let mut brng = Rng::new(seed ^ 0x55);
    let tick = Box::new(move |_cpu: &mut Cpu| {
        let mut t = s2.borrow_mut();
        t.0 += 1;
        if t.1 < l2.len() {
            let k = 1 + brng.below(5) as usize;
            for _ in 0..k {
                if t.1 < l2.len() {
                    let _ = tx.send(l2[t.1].clone());
                    t.1 += 1;
                }
            }
        } else {
            // make sure the emulator is not left paused, then stop
            let _ = tx.send("cmd:start".into());
            let _ = tx.send("cmd:stop".into());
        }
        if t.0 > 5000 {
            let _ = tx.send("cmd:stop".into());
        }
    });
    let end = run_with_hook(&mut rig.cpu, tick);
    rep.evaluations += 1;
    rep.count("control_lines_fuzzed", lines.len() as u64);
    rep.cell("lines-end-profile", &[matches!(end, RunEnd::Ok) as u64, (lines.len() / 50) as u64, prof]);
    match &end {
        RunEnd::Ok => false,
        RunEnd::Err(_) => {
            // an error from run() is a legitimate outcome (a fuzzed `u8:` line may overwrite the
            // guest's own code or stack, and the guest then fails like any faulty program): C15 asks
            // for "no panic, no abort", which an error return satisfies
            rep.count("fuzzed_lines_runs_ending_in_an_error_return", 1);
            false
        }
        RunEnd::Panic(m) => {
            let mut parts = m.splitn(3, ':');
            let file = parts.next().unwrap_or("").to_string();
            let line: u32 = parts.next().and_then(|l| l.trim().parse().ok()).unwrap_or(0);
            let msg = parts.next().unwrap_or("").trim().to_string();
            let p = crate::util::PanicInfo { file, line, msg };
            rep.finding(&format!("control-line|{}", panic_sig(&p)), || format!("run() panicked at {}:{}: {} while processing control lines (seed {})", p.file, p.line, p.msg, seed), || format!("check=C15 kind=lines seed={}", seed));
            true
        }
    }
}

pub fn replay(line: &str) -> (bool, String) {
    let seed: u64 = line.split_whitespace().find_map(|t| t.strip_prefix("seed=")).and_then(|v| v.parse().ok()).unwrap_or(0);
    let mut rep = Report::new("C15");
    let bad = if line.contains("kind=program") {
        run_fuzz_program(&mut rep, seed, 0)
    } else if line.contains("kind=maxwait") {
        let pat = line.split_whitespace().find_map(|t| t.strip_prefix("pat=")).unwrap_or("").replace('_', " ");
        run_maxwait_program(&mut rep, &pat, seed, 0)
    } else if line.contains("kind=lines") {
        run_fuzz_lines(&mut rep, seed, 0)
    } else if line.contains("kind=irqstep") {
        let v: u8 = line.split_whitespace().find_map(|t| t.strip_prefix("v=")).and_then(|v| v.parse().ok()).unwrap_or(0);
        let Some(case) = Case::from_line(line) else { return (false, "unparsable".into()) };
        let mut lock = Lock::new(Some(0));
        let obs = lock.run_action(&case, crate::mon::Action::Interrupt(v));
        let bad = matches!(obs.real, RealOutcome::Panic(_));
        return (bad, format!("interrupt acceptance vector {}: {:?}\n", v, obs.real));
    } else {
        return (false, "unknown".into());
    };
    let mut out = String::new();
    for f in rep.findings.values() {
        out.push_str(&format!("  FINDING {}: {}\n", f.sig, f.detail));
    }
    (bad, out)
}

/// more than 2^32 instructions on one machine (see c15 (i))
pub fn long_run(rep: &mut Report, long_steps: u64, prof: u64) {
    let mut cpu = Cpu::new();
    // INC.W #1,R0 ; MOV.W R0,@H'FFC100 ; BRA back  (fetch, data write, branch in every round)
    let code: [u8; 8] = [0x0b, 0x50, 0x6b, 0x80, 0xc1, 0x00, 0x40, 0xf8];
    for (i, b) in code.iter().enumerate() {
        crate::mon::real_poke(&mut cpu, 0xffc000 + i as u32, *b);
    }
    cpu.verif_set_pc(0xffc000);
    let mut done = 0u64;
    let mut failed = None;
    while done < long_steps && failed.is_none() {
        let chunk = (1u64 << 22).min(long_steps - done);
        let r = catch_unwind(AssertUnwindSafe(|| {
            for k in 0..chunk {
                if cpu.verif_step().is_err() {
                    return Err(k);
                }
            }
            Ok(())
        }));
        match r {
            Ok(Ok(())) => done += chunk,
            Ok(Err(k)) => {
                failed = Some(format!("step {} of a three-instruction loop returned an error", done + k));
            }
            Err(_) => {
                let p = crate::util::take_panic().unwrap_or_default();
                rep.finding(&format!("long-run|{}", panic_sig(&p)), || format!("panic at {}:{}: {} between steps {} and {} of a three-instruction loop on one machine", p.file, p.line, p.msg, done, done + chunk), || "check=C15 kind=longrun".to_string());
                failed = Some("panic".into());
            }
        }
    }
    if let Some(f) = failed {
        if f != "panic" {
            rep.finding("long-run|error", || f.clone(), || "check=C15 kind=longrun".to_string());
        }
    }
    rep.evaluations += 1;
    rep.count("long_run_instructions", done);
    rep.cell("long-run-log2-steps", &[(64 - done.leading_zeros()) as u64, prof]);
}
