//! C05 (branches, jumps, calls, returns) and C06 (exception entry / RTE).

use super::common::{describe, drain_strays, fid, record, Judge};
use crate::gen::{self, build_case, fill, BuildOpts, EaRegion, Fields, Group};
use crate::mon::{Action, Case, Lock, Obs, RealOutcome, Sess};
use crate::refmodel::decode::{Class, Mn, Opd};
use crate::refmodel::exec::{cond, fetch_words, Outcome, Regs, I};
use crate::refmodel::decode::decode;
use crate::util::{Cfg, Report, Rng};

// ---------------------------------------------------------------------------------------------
// C05 single steps

pub fn c05(rep: &mut Report, cfg: &Cfg) {
    let check = "C05";
    let mut rng = cfg.rng(check);
    let mut lock = Lock::new(Some(0));
    lock.full_every = 512;
    let judge = Judge::FULL.only(super::common::is_flow);
    let mut work = 0u64;
    let reps = cfg.n(3, 40);

    // 1. 16 conditions x all 256 CCR x {d:8, d:16}: exhaustive truth table
    for pat in ["4cpp", "58c0 pppp"] {
        for cc in 0..16u8 {
            for ccr in 0..256u32 {
                work += 1;
                if !cfg.mine(work) {
                    continue;
                }
                for _ in 0..reps {
                    let mut o = BuildOpts::default();
                    let mut f = Fields::random(&mut rng);
                    f.cc = cc;
                    o.fields = Some(f);
                    o.ccr = Some(ccr as u8);
                    let Some(b) = build_case(pat, &mut rng, &o) else { continue };
                    let obs = lock.run(&b.case);
                    if record(rep, check, &b.case, &obs, &judge) {
                        let taken = cond(cc, ccr as u8);
                        rep.cell("cond-ccr", &[pat.len() as u64, cc as u64, ccr as u64]);
                        rep.cell("cond-taken", &[pat.len() as u64, cc as u64, taken as u64]);
                        rep.count(&format!("ok:{}", b.insn.form()), 1);
                        rep.sample(|| format!("Bcc cc={:x} ccr={:02x} taken={}; {}", cc, ccr, taken, b.case.to_line()));
                    }
                }
            }
        }
        rep.exhaustive.push(format!("Bcc {}: 16 conditions x 256 CCR values", if pat.len() == 4 { "d:8" } else { "d:16" }));
    }
    // 2. all even 8-bit displacements, boundary 16-bit displacements, from code positions in RAM and DRAM
    for pat in ["4cpp", "55pp"] {
        for d in (0..256u32).step_by(2) {
            work += 1;
            if !cfg.mine(work) {
                continue;
            }
            for k in 0..reps * 2 {
                let dram = k % 2 == 0;
                let pc = (gen::code_addr(&mut rng, dram) & 0xffff00) + 0x100; // room both ways
                let mut f = Fields::random(&mut rng);
                f.disp = d;
                f.cc = if k % 3 == 0 { 0 } else { rng.u8() & 15 };
                let ws = fill(pat, &f);
                let mut c = Case::words(pc, &ws);
                c.er = gen::regs(&mut rng);
                c.ccr = rng.u8();
                c.er[7] = if rng.chance(1, 2) { 0xffe000 } else { 0x480000 } | ((rng.u8() as u32) << 24);
                let obs = lock.run(&c);
                if record(rep, check, &c, &obs, &judge) {
                    rep.cell("disp8", &[pat.len() as u64 + (pat.as_bytes()[0] as u64), d as u64, dram as u64]);
                }
            }
        }
        rep.exhaustive.push(format!("{}: all 128 even 8-bit displacements", if pat == "4cpp" { "Bcc d:8" } else { "BSR d:8" }));
    }
    // 3. every control-flow form through the generic builder (targets, stacks, vector slots, upper bytes)
    let per_form = cfg.share(cfg.n(20_000, 4_000_000));
    for pat in gen::forms_of(Group::Flow) {
        if pat == "5670" || pat == "57t0" {
            continue; // RTE / TRAPA belong to C06
        }
        for _ in 0..per_form {
            let o = BuildOpts::default();
            let Some(b) = build_case(pat, &mut rng, &o) else { continue };
            let obs = lock.run(&b.case);
            if record(rep, check, &b.case, &obs, &judge) {
                let form = b.insn.form();
                let id = fid(&form);
                rep.cell("form-code-stack", &[id, (b.case.pc >= 0xff0000) as u64, b.sp_region.map(|r| r as u64 + 1).unwrap_or(0), (b.case.er[7] >> 24 != 0) as u64]);
                rep.cell("form-regs", &[id, match b.insn.src { Opd::Ind(n) => n as u64, _ => 9 }]);
                rep.count(&format!("ok:{}", form), 1);
                rep.sample(|| format!("{}; {}", form, b.case.to_line()));
            }
        }
    }
    lock.finish();
    drain_strays(rep, check, &mut lock, &judge);

    // 4. call/return histories: generated call trees, shadow call stack
    let sessions = cfg.share(cfg.n(400, 80_000));
    for _ in 0..sessions {
        let seed = rng.next();
        calltree_session(rep, check, seed, false);
    }
    rep.notes.push("C05: Bcc truth table (16 conditions x 256 CCR x d:8/d:16) exhaustive; all even 8-bit displacements; every JMP/JSR/BSR/RTS form with targets, stack pointers (RAM/DRAM, non-zero upper byte), vector slots with non-zero top byte; generated call trees (all call forms, nesting up to 32) executed in session mode with a shadow call stack asserting that every RTS returns right after its call with SP restored. Cells: (cond, CCR), (cond, taken), (form, code region, stack region, SP upper byte), displacement values, (tree depth, call form).".into());
}

// ---------------------------------------------------------------------------------------------
// call-tree programs

struct Func {
    items: Vec<Item>,
    addr: u32,
    size: u32,
}
#[derive(Clone)]
enum Item {
    Raw(Vec<u16>),
    /// call function j using form k (0 BSR d:8 (+filler), 1 BSR d:16, 2 JSR @aa:24, 3 JSR @ERn, 4 JSR @@aa:8)
    Call(usize, u8, u8),
    /// conditional branch over the next item: (condition, d:16 form?, bytes to skip)
    Skip(u8, bool, u8),
    Rts,
}
fn item_size(it: &Item) -> u32 {
    match it {
        Item::Raw(w) => 2 * w.len() as u32,
        Item::Call(_, k, _) => match k {
            0 | 1 | 2 => 4,
            3 => 8,
            _ => 2,
        },
        Item::Skip(_, wide, _) => {
            if *wide {
                4
            } else {
                2
            }
        }
        Item::Rts => 2,
    }
}

fn body_insn(rng: &mut Rng) -> Vec<u16> {
    // register-only arithmetic / logic / MOV that never touches ER7 and cannot fail
    loop {
        let (g, pat) = *rng.pick(gen::FORMS);
        if !matches!(g, Group::Arith | Group::Logic) || pat.starts_with("51") || pat.starts_with("53") {
            continue;
        }
        let mut f = Fields::random(rng);
        if f.d & 7 == 7 {
            f.d ^= 1;
        }
        return fill(pat, &f);
    }
}

pub fn calltree_session(rep: &mut Report, check: &str, seed: u64, verbose: bool) -> bool {
    let mut rng = Rng::new(seed);
    let nfun = 2 + rng.below(32) as usize; // up to 33 functions -> nesting up to 32
    let deep = rng.chance(1, 2);
    let mut parent = vec![0usize; nfun];
    for i in 1..nfun {
        parent[i] = if deep || rng.chance(2, 3) { i - 1 } else { rng.below(i as u64) as usize };
    }
    let mut funcs: Vec<Func> = (0..nfun).map(|_| Func { items: vec![], addr: 0, size: 0 }).collect();
    let leafs: Vec<usize> = (1..nfun).filter(|i| !parent.contains(i)).collect();
    let mut slot = 0u8;
    for i in 0..nfun {
        let mut items = vec![];
        let nbody = rng.below(4);
        for _ in 0..nbody {
            items.push(Item::Raw(body_insn(&mut rng)));
        }
        let mut callees: Vec<usize> = (1..nfun).filter(|j| parent[*j] == i).collect();
        if !leafs.is_empty() && rng.chance(1, 3) {
            let l = *rng.pick(&leafs);
            if l != i && l > i {
                callees.push(l);
            }
        }
        for j in callees {
            let form = rng.below(5) as u8;
            let reg = rng.below(7) as u8; // ER0-ER6
            let s = if form == 4 {
                slot = slot.wrapping_add(1);
                0x40 + (slot % 48) * 4
            } else {
                reg
            };
            items.push(Item::Call(j, form, s));
            if rng.chance(1, 2) {
                let skipped = body_insn(&mut rng);
                items.push(Item::Skip(rng.u8() & 15, rng.chance(1, 2), 2 * skipped.len() as u8));
                items.push(Item::Raw(skipped));
            }
            if rng.chance(1, 2) {
                items.push(Item::Raw(body_insn(&mut rng)));
            }
        }
        if i != 0 {
            items.push(Item::Rts);
        }
        funcs[i].items = items;
        funcs[i].size = funcs[i].items.iter().map(item_size).sum();
    }
    // layout in shuffled order
    let in_dram = rng.chance(1, 2);
    let base = if in_dram { 0x400000 + (rng.below(0x1e0000) as u32 & !1) } else { 0xffbf20 + (rng.below(0x2000) as u32 & !1) };
    let mut order: Vec<usize> = (0..nfun).collect();
    for i in (1..order.len()).rev() {
        let j = rng.below(i as u64 + 1) as usize;
        order.swap(i, j);
    }
    let mut a = base;
    for &i in &order {
        funcs[i].addr = a;
        a += funcs[i].size;
        if i == 0 {
            a += 2; // end marker slot after main
        }
    }
    let end_marker = funcs[0].addr + funcs[0].size;
    // emit
    let mut sess = Sess::new(Some((seed & 1) as u32));
    sess.full_every = 512;
    let mut vector_top = vec![];
    for i in 0..nfun {
        let mut pc = funcs[i].addr;
        for it in funcs[i].items.clone() {
            let words: Vec<u16> = match &it {
                Item::Raw(w) => w.clone(),
                Item::Rts => vec![0x5470],
                Item::Skip(cc, wide, n) => {
                    if *wide {
                        vec![0x5800 | ((*cc as u16) << 4), *n as u16]
                    } else {
                        vec![0x4000 | ((*cc as u16) << 8) | *n as u16]
                    }
                }
                Item::Call(j, form, s) => {
                    let t = funcs[*j].addr;
                    match form {
                        0 => {
                            let d = t as i64 - (pc as i64 + 2);
                            if (-128..=126).contains(&d) {
                                vec![0x5500 | (d as u8 as u16), 0x0c00]
                            } else {
                                let d16 = t as i64 - (pc as i64 + 4);
                                if (-32768..=32766).contains(&d16) {
                                    vec![0x5c00, d16 as u16]
                                } else {
                                    vec![0x5e00 | (t >> 16) as u16, t as u16]
                                }
                            }
                        }
                        1 => {
                            let d16 = t as i64 - (pc as i64 + 4);
                            if (-32768..=32766).contains(&d16) {
                                vec![0x5c00, d16 as u16]
                            } else {
                                vec![0x5e00 | (t >> 16) as u16, t as u16]
                            }
                        }
                        2 => vec![0x5e00 | (t >> 16) as u16, t as u16],
                        3 => {
                            let top = (rng.u8() as u32) << 24;
                            let v = t | top;
                            vec![0x7a00 | *s as u16, (v >> 16) as u16, v as u16, 0x5d00 | ((*s as u16) << 4)]
                        }
                        _ => {
                            let top = (rng.u8() as u32) << 24;
                            vector_top.push((*s as u32, t | top));
                            vec![0x5f00 | *s as u16]
                        }
                    }
                }
            };
            for w in &words {
                sess.poke(pc, (w >> 8) as u8);
                sess.poke(pc + 1, *w as u8);
                pc += 2;
            }
        }
    }
    for (slot, v) in &vector_top {
        sess.poke32(*slot, *v);
    }
    // initial state
    let sp_dram = rng.chance(1, 2);
    let sp_base = if sp_dram { 0x5f0000 + (rng.below(0x8000) as u32 & !3) } else { 0xfff000 + (rng.below(0xe00) as u32 & !3) };
    let mut r = Regs { er: gen::regs(&mut rng), ccr: rng.u8(), pc: funcs[0].addr };
    r.er[7] = sp_base | (if rng.chance(1, 3) { 0 } else { (rng.u8() as u32) << 24 });
    sess.set_regs(&r);
    let judge = Judge::FULL.only(super::common::is_flow);
    let mut shadow: Vec<(u32, u32)> = vec![];
    let mut maxdepth = 0usize;
    let mut steps = 0u64;
    let replay = || format!("check={} kind=calltree seed={}", check, seed);
    let mut bad = false;
    loop {
        let before = sess.regs();
        if before.pc == end_marker {
            rep.count("calltree_completed", 1);
            break;
        }
        steps += 1;
        if steps > 5000 {
            rep.count("calltree_step_limit", 1);
            break;
        }
        let (w, avail) = fetch_words(&sess.mem, before.pc);
        if avail == 0 || before.pc & 1 != 0 {
            rep.count("calltree_left_program", 1);
            break;
        }
        let insn = decode(&w);
        let is_flow = matches!(insn.mn, Mn::Bcc | Mn::Bsr | Mn::Jsr | Mn::Jmp | Mn::Rts);
        let obs = sess.act(Action::Step);
        if verbose {
            let a = sess.regs();
            println!("  step {:3} pc={:06x} {:04x} {:04x} {:<28} -> pc={:06x} sp={:08x} {:?}", steps, before.pc, w[0], w[1], insn.form(), a.pc, a.er[7], obs.real);
        }
        if is_flow {
            let c = Case { pc: before.pc, code: vec![], er: before.er, ccr: before.ccr, patches: vec![], pending: vec![] };
            let nf = rep.findings.len();
            record_session(rep, check, &c, &obs, &judge, &replay());
            bad |= rep.findings.len() > nf;
            if verbose {
                for d in &obs.diffs {
                    println!("  step {} pc={:06x} {}: DIFF {}", steps, before.pc, insn.form(), describe(d));
                }
            }
            let after = sess.regs();
            match insn.mn {
                Mn::Bsr | Mn::Jsr => {
                    shadow.push(((before.pc + insn.len as u32) & 0xffffff, before.er[7]));
                    maxdepth = maxdepth.max(shadow.len());
                    let kind = match insn.src {
                        Opd::Rel(_, 8) => 0,
                        Opd::Rel(..) => 1,
                        Opd::A24(_) => 2,
                        Opd::Ind(_) => 3,
                        _ => 4,
                    };
                    rep.cell("depth-callform", &[shadow.len() as u64, kind]);
                }
                Mn::Rts => {
                    if let (Some((ret, sp)), RealOutcome::Ok(_)) = (shadow.pop(), &obs.real) {
                        if after.pc != ret || after.er[7] != sp {
                            bad = true;
                            rep.finding(
                                "calltree|rts-does-not-restore",
                                || format!("RTS at {:06x}: PC={:06x} SP={:08x}, shadow call stack expects PC={:06x} SP={:08x} (depth {})", before.pc, after.pc, after.er[7], ret, sp, shadow.len() + 1),
                                &replay,
                            );
                            if verbose {
                                println!("  step {} RTS pc={:06x}: PC={:06x} SP={:08x} expected PC={:06x} SP={:08x}", steps, before.pc, after.pc, after.er[7], ret, sp);
                            }
                            // continue from where the program should be
                            let mut fix = after.clone();
                            fix.pc = ret;
                            fix.er[7] = sp;
                            sess.set_regs(&fix);
                        }
                    }
                }
                _ => {}
            }
        } else {
            rep.count("calltree_body_steps_not_judged", 1);
        }
        rep.evaluations += if is_flow { 0 } else { 1 };
        if !matches!(obs.real, RealOutcome::Ok(_)) {
            rep.count("calltree_aborted", 1);
            break;
        }
    }
    sess.full_compare();
    for (at, addr, real, model) in sess.strays.drain(..) {
        bad = true;
        rep.finding("calltree|mem.stray", || format!("memory differs from the mirror at {:06x}: {:02x} vs {:02x} (found at action {})", addr, real, model, at), &replay);
    }
    rep.cell("calltree-shape", &[nfun as u64, maxdepth as u64, in_dram as u64, sp_dram as u64]);
    rep.sample(|| format!("call tree seed={} functions={} max nesting={} steps={} code@{:06x} sp={:08x}", seed, nfun, maxdepth, steps, base, r.er[7]));
    bad
}

/// like common::record but with a session replay line
pub fn record_session(rep: &mut Report, check: &str, c: &Case, obs: &Obs, j: &Judge, replay: &str) {
    let n0: Vec<String> = rep.findings.keys().cloned().collect();
    record(rep, check, c, obs, j);
    for (k, f) in rep.findings.iter_mut() {
        if !n0.contains(k) {
            f.replay = replay.to_string();
        }
    }
}

// ---------------------------------------------------------------------------------------------
// C06

pub fn c06(rep: &mut Report, cfg: &Cfg) {
    let check = "C06";
    let mut rng = cfg.rng(check);
    let mut lock = Lock::new(Some(0));
    lock.full_every = 512;
    let judge = Judge::FULL.only(super::common::is_exception);
    let mut work = 0u64;
    let reps = cfg.n(2, 160);
    // 1. TRAPA #1-3 x all 256 CCR; RTE x all 256 saved CCR values
    for ccr in 0..256u32 {
        for t in 1..=3u8 {
            work += 1;
            if !cfg.mine(work) {
                continue;
            }
            for _ in 0..reps {
                let mut o = BuildOpts::default();
                let mut f = Fields::random(&mut rng);
                f.trap = t;
                o.fields = Some(f);
                o.ccr = Some(ccr as u8);
                let Some(mut b) = build_case("57t0", &mut rng, &o) else { continue };
                // requests may be pending while the trap executes (they are masked or simply not yet
                // accepted): the trap still goes through its own vector and leaves them queued
                for _ in 0..rng.below(4) {
                    b.case.pending.push(1 + rng.below(63) as u8);
                }
                let obs = lock.run(&b.case);
                if record(rep, check, &b.case, &obs, &judge) {
                    rep.cell("trapa", &[t as u64, ccr as u64]);
                    rep.cell("entry-stack", &[0, b.sp_region.map(|r| r as u64).unwrap_or(9), (b.case.er[7] >> 24 != 0) as u64]);
                    rep.count("ok:TRAPA #n", 1);
                    rep.sample(|| format!("TRAPA #{} ccr={:02x}; {}", t, ccr, b.case.to_line()));
                }
                // RTE with this saved CCR
                let mut o = BuildOpts::default();
                o.ccr = Some(rng.u8());
                let Some(mut b) = build_case("5670", &mut rng, &o) else { continue };
                let sp = b.case.er[7] & 0xffffff;
                b.case.patches.retain(|(a, _)| *a != sp);
                b.case.patches.push((sp, ccr as u8));
                for _ in 0..rng.below(3) {
                    b.case.pending.push(1 + rng.below(63) as u8);
                }
                let obs = lock.run(&b.case);
                if record(rep, check, &b.case, &obs, &judge) {
                    rep.cell("rte", &[ccr as u64]);
                    rep.count("ok:RTE", 1);
                }
            }
        }
    }
    rep.exhaustive.push("TRAPA #1-3 x all 256 CCR values; RTE x all 256 saved CCR values".into());
    // 2. interrupt acceptance: vectors 1-63 x CCR with I clear x stacks x vector contents
    for v in 1..64u8 {
        for ccr in 0..128u32 {
            work += 1;
            if !cfg.mine(work) {
                continue;
            }
            for _ in 0..reps {
                let c = entry_case(&mut rng, v, ccr as u8);
                let obs = lock.run_action(&c, Action::Interrupt(v));
                if record(rep, check, &c, &obs, &judge) {
                    rep.cell("irq", &[v as u64, ccr as u64]);
                    rep.cell("entry-stack", &[1, (c.er[7] & 0xffffff >= 0xff0000) as u64, (c.er[7] >> 24 != 0) as u64]);
                    rep.count("ok:interrupt entry", 1);
                    rep.sample(|| format!("interrupt {} ccr={:02x}; {}", v, ccr, c.to_line()));
                }
            }
        }
    }
    rep.exhaustive.push("interrupt entry: vectors 1-63 x all 128 CCR values with I clear".into());
    lock.finish();
    drain_strays(rep, check, &mut lock, &judge);
    // 3. nesting histories
    let sessions = cfg.share(cfg.n(300, 60_000));
    for _ in 0..sessions {
        let seed = rng.next();
        excwalk_session(rep, check, seed, false);
    }
    rep.notes.push("C06: TRAPA #1-3 and RTE x all 256 CCR, interrupt entry for vectors 1-63 x all CCR with I clear, stack pointers in RAM/DRAM with non-zero upper byte, vector contents with non-zero top byte; random walks of {interrupt entry, TRAPA, RTE} to depth 32 with a shadow frame stack asserting the round trip (CCR, PC, SP, registers) at every RTE. Cells: (trap, CCR), (vector, CCR), saved CCR at RTE, (entry kind, stack region, SP upper byte), (walk depth, entry kind).".into());
}

pub fn entry_case(rng: &mut Rng, v: u8, ccr: u8) -> Case {
    let pc = gen::code_addr(rng, rng.clone().chance(1, 2));
    let mut c = Case::words(pc, &[]);
    c.er = gen::regs(rng);
    c.ccr = ccr;
    let dram = rng.chance(1, 2);
    let mut fa = gen::addr_in(rng, if dram { gen::Region::Dram } else { gen::Region::Ram }, 8) & !3;
    if dram && rng.chance(1, 4) {
        // frame straddling / next to a 64 KiB boundary (borrow out of the low word of SP)
        fa = (0x410000 + ((rng.below(30) as u32) << 16)).wrapping_add((rng.below(5) as u32) * 4).wrapping_sub(8);
    }
    let top = if rng.chance(1, 3) { 0 } else { rng.u8() };
    c.er[7] = (fa + 4) | ((top as u32) << 24);
    let target = gen::code_addr(rng, rng.clone().chance(1, 2));
    c.patch32(4 * v as u32, target | ((rng.u8() as u32) << 24));
    gen::maybe_io(rng, &mut c);
    // the requesting peripheral's status: the 8-bit timer's flags stay as they are when the CPU
    // accepts the request (software clears them) - acceptance changes no memory outside the frame
    if rng.chance(1, 3) || matches!(v, 36 | 37 | 39) {
        c.patches.push((0xffff82, rng.u8() | 0xe0)); // TCSR0 with the three flags set
        c.patches.push((0xffff80, rng.u8() & 0xf8)); // TCR0: enables/clear source random, no clock
    }
    c
}

pub fn excwalk_session(rep: &mut Report, check: &str, seed: u64, verbose: bool) -> bool {
    let mut rng = Rng::new(seed);
    let mut sess = Sess::new(Some((seed & 1) as u32));
    sess.full_every = 256;
    if rng.chance(1, 4) {
        sess.io_background(rng.next());
    }
    if rng.chance(1, 3) {
        for (a, v) in gen::io_noise(&mut rng) {
            sess.poke(a, v);
        }
    }
    // vector table: every vector points to its own even code address
    let code_dram = rng.chance(1, 2);
    // code addresses kept away from the stack zones used below
    let code_at = |rng: &mut Rng, dram: bool| -> u32 {
        if dram {
            0x400000 + (rng.below(0x1e0000) as u32 & !1)
        } else {
            0xffc000 + (rng.below(0x2f00) as u32 & !1)
        }
    };
    for v in 1..64u32 {
        let other = rng.chance(1, 4);
        let t = code_at(&mut rng, if other { !code_dram } else { code_dram });
        sess.poke32(4 * v, t | ((rng.u8() as u32) << 24));
    }
    let sp_dram = rng.chance(1, 2);
    // on-chip RAM stacks stay below H'FFFD10: the MES set_handler call (used for vector maintenance
    // below) saves the caller's GOT pointer at H'FFFD10 + 4 x vector, by design
    let sp_base = if sp_dram { 0x5f0000 + (rng.below(0x8000) as u32 & !3) } else { 0xfff000 + (rng.below(0xd00) as u32 & !3) };
    let mut r = Regs { er: gen::regs(&mut rng), ccr: rng.u8(), pc: code_at(&mut rng, code_dram) };
    r.er[7] = sp_base | (if rng.chance(1, 3) { 0 } else { (rng.u8() as u32) << 24 });
    sess.set_regs(&r);
    let judge = Judge::FULL.only(super::common::is_exception);
    let replay = || format!("check={} kind=excwalk seed={}", check, seed);
    // shadow frame stack: state that must be restored by the matching RTE
    let mut shadow: Vec<Regs> = vec![];
    let nsteps = 40 + rng.below(200);
    let mut bad = false;
    let mut maxdepth = 0;
    // vectors whose table entries are maintained during the walk (installed through the MES
    // set_handler call, rewritten by plain stores) - entry must always follow the table in memory
    let hot: Vec<u8> = (0..3).map(|_| 1 + rng.below(63) as u8).collect();
    let mut maintained = [0u8; 64];
    for step in 0..nsteps {
        let before = sess.regs();
        let choice = rng.below(10);
        let depth = shadow.len();
        if verbose {
            let sp = before.er[7] & 0xffffff;
            let fr: Vec<u8> = (0..8).map(|k| crate::mon::real_peek(&sess.cpu, sp.wrapping_add(k)).unwrap_or(0)).collect();
            println!("  action {}: depth {} pc={:06x} sp={:08x} ccr={:02x} mem[sp..]={:02x?}", step, depth, before.pc, before.er[7], before.ccr, fr);
        }
        if rng.chance(1, 4) {
            let v = *rng.pick(&hot);
            let dram = rng.chance(1, 2);
            let a = code_at(&mut rng, dram);
            if rng.chance(1, 2) {
                // the guest installs a handler through the system call (not judged here: C14's subject)
                let argp = 0xffbf40 + 8 * rng.below(16) as u32;
                sess.poke32(argp, v as u32);
                sess.poke32(argp + 4, a);
                let mut s2 = before.clone();
                s2.er[0] = 113;
                s2.er[1] = argp;
                sess.set_regs(&s2);
                sess.load(s2.pc, &[0x57, 0x00]);
                let o = sess.act(Action::Step);
                if verbose {
                    println!("  action {} set_handler({}, {:06x}) at pc={:06x} sp={:08x}: {:?}; real changes {:x?}", step, v, a, s2.pc, s2.er[7], o.real, o.real_changes);
                }
                sess.set_regs(&before);
                maintained[v as usize] |= 1;
            } else {
                // the guest rewrites the table entry with an ordinary store
                sess.poke32(4 * v as u32, a | ((rng.u8() as u32) << 24));
                maintained[v as usize] |= 2;
            }
        }
        if (choice < 4 && depth < 32) || depth == 0 {
            // entry: interrupt or TRAPA; "handler/main effects" = random register and flag changes first
            let mut s = before.clone();
            for k in 0..7 {
                if rng.chance(1, 3) {
                    s.er[k] = rng.u32();
                }
            }
            s.ccr = rng.u8();
            let irq = rng.chance(1, 2);
            if irq {
                s.ccr &= !I; // the program (or an RTE frame) has interrupts enabled here
                sess.set_regs(&s);
                let v = if rng.chance(1, 2) { *rng.pick(&hot) } else { 1 + rng.below(63) as u8 };
                rep.cell("walk-vector-maintenance", &[maintained[v as usize] as u64]);
                let obs = sess.act(Action::Interrupt(v));
                let c = Case { pc: s.pc, code: vec![], er: s.er, ccr: s.ccr, patches: vec![], pending: vec![] };
                let nf = rep.findings.len();
                record_session(rep, check, &c, &obs, &judge, &replay());
                bad |= rep.findings.len() > nf;
                rep.cell("walk-depth-kind", &[depth as u64 + 1, 0]);
                if verbose {
                    for d in &obs.diffs {
                        println!("  action {} interrupt {}: DIFF {}", step, v, describe(d));
                    }
                }
                if !matches!(obs.real, RealOutcome::Ok(_)) {
                    break;
                }
                shadow.push(s);
            } else {
                sess.set_regs(&s);
                let t = 1 + rng.below(3) as u16;
                sess.load(s.pc, &[0x57, (t << 4) as u8]);
                let pend: Vec<u8> = (0..rng.below(3)).map(|_| 1 + rng.below(63) as u8).collect();
                for v in &pend {
                    sess.cpu.verif_request_interrupt(*v);
                }
                let obs = sess.act(Action::Step);
                let q = sess.cpu.verif_pending();
                sess.cpu.verif_clear_pending();
                // as multisets: the order among simultaneously pending requests is not pinned
                let (mut qs, mut ps) = (q.clone(), pend.clone());
                qs.sort_unstable();
                ps.sort_unstable();
                if qs != ps && matches!(obs.real, RealOutcome::Ok(_)) {
                    bad = true;
                    rep.finding("excwalk|pending-queue-disturbed", || format!("TRAPA #{} executed with requests {:?} pending left the queue as {:?}", t, pend, q), &replay);
                }
                let c = Case { pc: s.pc, code: vec![0x57, (t << 4) as u8], er: s.er, ccr: s.ccr, patches: vec![], pending: vec![] };
                let nf = rep.findings.len();
                record_session(rep, check, &c, &obs, &judge, &replay());
                bad |= rep.findings.len() > nf;
                rep.cell("walk-depth-kind", &[depth as u64 + 1, t as u64]);
                if !matches!(obs.real, RealOutcome::Ok(_)) {
                    break;
                }
                let mut resume = s.clone();
                resume.pc = (s.pc + 2) & 0xffffff;
                shadow.push(resume);
            }
            maxdepth = maxdepth.max(shadow.len());
        } else {
            // RTE: handler body changed registers; it restores them (as a real handler does) before RTE
            let want = shadow.pop().unwrap();
            let mut s = before.clone();
            for k in 0..7 {
                s.er[k] = want.er[k];
            }
            s.ccr = rng.u8();
            sess.set_regs(&s);
            sess.load(s.pc, &[0x56, 0x70]);
            let obs = sess.act(Action::Step);
            let c = Case { pc: s.pc, code: vec![0x56, 0x70], er: s.er, ccr: s.ccr, patches: vec![], pending: vec![] };
            let nf = rep.findings.len();
            record_session(rep, check, &c, &obs, &judge, &replay());
            bad |= rep.findings.len() > nf;
            if !matches!(obs.real, RealOutcome::Ok(_)) {
                break;
            }
            let after = sess.regs();
            // round trip: CCR (UI aside: entry may set it), PC, SP and all registers as at entry
            let ccr_ok = (after.ccr ^ want.ccr) & !0x40 == 0;
            if !(ccr_ok && after.pc == want.pc && after.er == want.er) {
                bad = true;
                rep.finding(
                    "excwalk|rte-does-not-restore",
                    || format!("RTE at depth {}: CCR={:02x} PC={:06x} SP={:08x}; interrupted context had CCR={:02x} PC={:06x} SP={:08x}", depth, after.ccr, after.pc, after.er[7], want.ccr, want.pc, want.er[7]),
                    &replay,
                );
                if verbose {
                    println!("  action {} RTE: got CCR={:02x} PC={:06x} SP={:08x} want CCR={:02x} PC={:06x} SP={:08x}", step, after.ccr, after.pc, after.er[7], want.ccr, want.pc, want.er[7]);
                }
                let mut fix = want.clone();
                fix.ccr = after.ccr;
                sess.set_regs(&want);
                let _ = &mut fix;
            }
            rep.cell("walk-rte-depth", &[depth as u64]);
        }
    }
    sess.full_compare();
    for (at, addr, real, model) in sess.strays.drain(..) {
        bad = true;
        rep.finding("excwalk|mem.stray", || format!("memory differs from the mirror at {:06x}: {:02x} vs {:02x} (found at action {})", addr, real, model, at), &replay);
    }
    rep.sample(|| format!("exception walk seed={} actions={} max depth={} sp={:08x}", seed, nsteps, maxdepth, r.er[7]));
    bad
}

#[allow(dead_code)]
fn _unused(_: Class) {}
