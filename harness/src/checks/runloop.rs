//! C13 — the run loop: exit/error point, state accounting, sync messages, determinism.
//! Baseline = a twin Cpu driven by the same real step engine (attribution rule).

use crate::asm::Asm;
use crate::checks::elfcheck::BASE;
use crate::cpu::Cpu;
use crate::gen::{self, fill, Fields, Group};
use crate::runrig::{mem_digest, run_with_hook, scratch_path, shared, simple_elf, RunEnd, RunRig};
use crate::util::{take_panic, Cfg, Report, Rng};
use std::panic::{catch_unwind, AssertUnwindSafe};

pub const SYNC_INTERVAL: u64 = 2_000_000;

pub struct Prog {
    pub image: Vec<u8>,
    pub exit_vaddr: u32,
    pub desc: String,
    pub shape: [u64; 4],
    /// external levels on the pins of ports 1-B while the program runs
    pub pins: [u8; 11],
}

fn reg_op(rng: &mut Rng) -> Vec<u16> {
    // register-only op on ER0-ER4 that cannot fail
    loop {
        let (g, pat) = *rng.pick(gen::FORMS);
        if !matches!(g, Group::Arith | Group::Logic) || pat.starts_with("51") || pat.starts_with("53") {
            continue;
        }
        let mut f = Fields::random(rng);
        f.d = (f.d & 8) | (f.d & 7) % 5;
        f.s = (f.s & 8) | (f.s & 7) % 5;
        f.x = f.x % 5;
        return fill(pat, &f);
    }
}

/// plant: 0 none, 1 unimplemented opcode, 2 access outside mapped memory, 3/4 the same with the
/// exit address directly behind the failing instruction (the failure still ends the run with its error)
pub fn gen_prog(rng: &mut Rng, target_scaled: u64, plant: u8) -> Prog {
    gen_prog_tail(rng, target_scaled, plant, None)
}

/// `tail`: Some((n, k)) appends a delay loop of n iterations and k two-byte fillers right before the
/// final jump (used to place the end of the program exactly at a sync threshold); such programs do
/// not use the timer so that their timing is additive.
pub fn gen_prog_tail(rng: &mut Rng, target_scaled: u64, plant: u8, tail: Option<(u32, u32)>) -> Prog {
    // external pin levels: none driven (half of the programs), or random per port
    let mut pins = [0u8; 11];
    if rng.chance(1, 2) {
        for p in pins.iter_mut() {
            *p = if rng.chance(1, 3) { 0xff } else { rng.u8() };
        }
    }
    let mut a = Asm::new(BASE);
    let uses_timer = rng.chance(1, 2) && tail.is_none();
    let nsubs = 1 + rng.below(3) as usize;
    let texts: Vec<Vec<u8>> = vec![b"hello\n".to_vec(), "tick \\ \u{3042}\u{1F600}\n".as_bytes().to_vec(), b"x".to_vec(), vec![]];
    a.label("start");
    if uses_timer {
        // install the compare-match-A handler through the MES call, then start the timer
        a.mov_l_imm(0, 113);
        a.mov_l_label(1, "sh_args");
        a.trapa(0);
        // the compare-match period must be much longer than the handler (about 600 charged states),
        // otherwise the guest live-locks in its own interrupt: /64 with TCORA >= 40, or /8 with
        // TCORA >= 200
        let slow = rng.chance(1, 2);
        a.mov_b_imm(8, if slow { 40 + rng.below(200) as u8 } else { 200 + rng.below(55) as u8 });
        a.mov_b_to_abs8(8, 0x84);
        a.mov_b_imm(8, 0xff);
        a.mov_b_to_abs8(8, 0x86);
        a.mov_b_imm(8, 0);
        a.mov_b_to_abs8(8, 0x88);
        a.mov_b_imm(8, 0x48 | if slow { 2 } else { 1 } | if rng.chance(1, 2) { 0x20 } else { 0 });
        a.mov_b_to_abs8(8, 0x80);
    }
    for r in 0..5u8 {
        a.mov_l_imm(r, rng.u32());
    }
    let nblocks = 3 + rng.below(6);
    // the loop budget: scaled states ~ 3 * states; one loop iteration of k ops in DRAM ~ (8k + 24) states
    let nloops = 1 + rng.below(3);
    let mut loops_left = nloops;
    let mut shape_loops = 0;
    let mut shape_io = 0;
    let plant_at = if plant != 0 { 1 + rng.below(nblocks - 1) } else { 99 };
    for b in 0..nblocks {
        if b == plant_at {
            match plant {
                // NOP, SLEEP, LDC #imm, ORC, SUBX, DAA: valid H8/300H instructions this emulator rejects
                1 | 3 => a.w(*rng.pick(&[0x0000u16, 0x0180, 0x0700, 0x0401, 0x1e12, 0x0f03])),
                _ => a.mov_b_from_abs24(8, 0x300000),
            }
            // plant 3/4: the exit address is the address right behind the failing instruction
            a.label("behind_fault");
        }
        let kind = if loops_left > 0 && (b % 2 == 0 || nblocks - b <= loops_left) { 0 } else { 1 + rng.below(4) };
        match kind {
            0 => {
                loops_left -= 1;
                shape_loops += 1;
                let k = 3 + rng.below(8);
                let per_iter = 3 * (14 * k + 40);
                let iters = ((target_scaled / nloops) / per_iter).clamp(1, 60_000) as u16;
                let l = a.fresh("loop");
                a.mov_w_imm(5, iters);
                a.label(&l);
                for _ in 0..k {
                    let ws = reg_op(rng);
                    a.words(&ws);
                }
                if rng.chance(1, 3) {
                    let s = format!("sub{}", rng.below(nsubs as u64));
                    a.bsr16(&s);
                }
                a.dec_w(5);
                a.bcc16(6, &l); // BNE
            }
            1 => {
                for _ in 0..(5 + rng.below(25)) {
                    let ws = reg_op(rng);
                    a.words(&ws);
                }
            }
            2 => {
                // port traffic: DDR then DR of a random port
                shape_io += 1;
                let p = rng.below(11) as u32;
                let ddr = if rng.chance(1, 3) { rng.u8() } else { *rng.pick(&[0xffu8, 0x0f, 0xf0]) };
                a.mov_b_imm(8, ddr);
                a.mov_b_to_abs24(8, 0xfee000 + p);
                a.mov_b_imm(8, rng.u8());
                a.mov_b_to_abs8(8, 0xd0 + p as u8);
                a.mov_b_imm(8, rng.u8());
                a.mov_b_to_abs8(8, 0xd0 + p as u8);
            }
            3 => {
                // console output
                shape_io += 1;
                let t = rng.below(texts.len() as u64);
                a.push_l(0);
                a.push_l(1);
                a.mov_l_imm(0, 104);
                a.mov_l_label(1, &format!("wr_args{}", t));
                a.trapa(0);
                a.pop_l(1);
                a.pop_l(0);
            }
            _ => {
                let s = format!("sub{}", rng.below(nsubs as u64));
                a.jsr_label(&s);
                a.mov_l_to_label(rng.below(5) as u8, "scratch");
                a.mov_l_from_label(rng.below(5) as u8, "scratch");
            }
        }
    }
    // result to memory, exit code in ER0
    for r in 0..5u8 {
        a.mov_l_to_label(r, &format!("result{}", r));
    }
    if let Some((n, k)) = tail {
        if n > 0 {
            a.mov_l_imm(6, n);
            a.label("tail_delay");
            a.dec_l(6);
            a.bcc8(6, "tail_delay");
        }
        for _ in 0..k {
            a.w(0x0c88); // MOV.B R0L,R0L
        }
    }
    a.jmp_label("exit");
    for s in 0..nsubs {
        a.label(&format!("sub{}", s));
        for _ in 0..(1 + rng.below(6)) {
            let ws = reg_op(rng);
            a.words(&ws);
        }
        a.rts();
    }
    a.label("handler");
    a.push_l(0);
    a.mov_b_imm(8, 0);
    a.mov_b_to_abs8(8, 0x82);
    a.mov_w_from_label(0, "tickcount");
    a.inc_w(0);
    a.mov_w_to_label(0, "tickcount");
    a.pop_l(0);
    a.rte();
    a.align(4);
    a.label("sh_args");
    a.l(36);
    a.l_label("handler");
    a.label("tickcount");
    a.w(0);
    a.w(0);
    a.label("scratch");
    a.l(0);
    for r in 0..5u8 {
        a.label(&format!("result{}", r));
        a.l(0);
    }
    for (t, text) in texts.iter().enumerate() {
        a.label(&format!("text{}", t));
        a.bytes(text);
        a.align(4);
        a.label(&format!("wr_args{}", t));
        a.l(1);
        a.l_label(&format!("text{}", t));
        a.l(text.len() as u32);
    }
    a.align(2);
    a.label("exit");
    a.w(0x5470);
    let (image, labels) = a.finish();
    let exit_vaddr = if plant >= 3 { labels["behind_fault"] - BASE } else { labels["exit"] - BASE };
    Prog {
        image,
        exit_vaddr,
        desc: format!("blocks={} loops={} io-blocks={} timer={} plant={} target={}", nblocks, shape_loops, shape_io, uses_timer, plant, target_scaled),
        shape: [shape_loops, shape_io.min(3), uses_timer as u64, plant as u64],
        pins,
    }
}

/// total charged (scaled) states of a timer-less program up to (not including) its last
/// instruction, and the charge of the last instruction, measured on a plain stepping loop
fn measure(prog: &Prog, k: u64) -> Option<(u64, u64)> {
    let mut cpu = Cpu::new();
    for (i, b) in prog.image.iter().enumerate() {
        crate::mon::real_poke(&mut cpu, BASE + i as u32, *b);
    }
    let _ = cpu.verif_init_registers();
    cpu.verif_set_pc(BASE);
    cpu.er[7] = 0x5f0000;
    let exit = BASE + prog.exit_vaddr;
    let mut total = 0u64;
    let _ = crate::util::take_panic();
    for _ in 0..30_000_000u64 {
        let s = catch_unwind(AssertUnwindSafe(|| cpu.verif_step())).ok()?.ok()? as u64 * k;
        if cpu.verif_pc() == exit {
            return Some((total, s));
        }
        total += s;
    }
    None
}

/// generate a timer-less program whose final instruction crosses a multiple of 2,000,000
pub fn tune_to_threshold(rng: &mut Rng, target: u64) -> Prog {
    let k = 3u64;
    let base_rng = rng.clone();
    let gen = |tail: (u32, u32)| {
        let mut r = base_rng.clone();
        gen_prog_tail(&mut r, target, 0, Some(tail))
    };
    // advance the caller's generator as one generation does
    let _ = gen_prog_tail(rng, target, 0, Some((0, 0)));
    let p0 = gen((1, 0));
    let (Some((t1, last)), Some((t2, _)), Some((t3, _))) = (measure(&p0, k), measure(&gen((1001, 0)), k), measure(&gen((1, 10)), k)) else { return p0 };
    let per_iter = (t2 - t1) / 1000;
    let per_fill = (t3 - t1) / 10;
    if per_iter == 0 || per_fill == 0 || last == 0 {
        return p0;
    }
    // want: total_before_last in (m*2M - last, m*2M) for the next multiple m above t1
    let m = t1 / SYNC_INTERVAL + 1;
    let goal = m * SYNC_INTERVAL - 1 - (rng.below(last.min(per_fill).max(1)));
    let need = goal.saturating_sub(t1);
    let n = need / per_iter;
    let rest = need - n * per_iter;
    let f = rest / per_fill;
    let p = gen((1 + n as u32, f as u32));
    match measure(&p, k) {
        Some((t, l)) if t / SYNC_INTERVAL < (t + l) / SYNC_INTERVAL => Prog { desc: format!("{} tuned: last instruction crosses {}", p.desc, (t + l) / SYNC_INTERVAL * SYNC_INTERVAL), shape: [p.shape[0], p.shape[1], 2, 0], ..p },
        _ => p,
    }
}

#[derive(Default)]
pub struct Trace {
    pub ticks: u64,
    pub findings: Vec<(String, String)>,
    pub twin_done: Option<RunEnd>,
    pub k: Option<u64>,
    pub expected_msgs: Vec<String>,
    pub sum: u64,
    pub crossed: u64,
    pub last_states: u32,
    pub stopped: bool,
    pub gave_up: bool,
    /// every message of the real run with the state count before / after the iteration that emitted it
    pub stamped: Vec<(String, u64, u64)>,
    pub sum_at_last_tick: u64,
    pub armed_at_exit: u64,
    pub armed: Option<(u64, u8)>,
}

pub struct RunResult {
    pub end: RunEnd,
    pub regs: [u32; 8],
    pub state_sum: u64,
    pub digest: u64,
    pub msgs: Vec<String>,
    pub ticks: u64,
    pub gave_up: bool,
    pub armed: Option<(u64, u8)>,
}

/// pending requests as a multiset (their order is not pinned by any property)
fn sorted(mut v: Vec<u8>) -> Vec<u8> {
    v.sort_unstable();
    v
}

fn timer_regs(cpu: &Cpu) -> [u8; 5] {
    let r = |a| cpu.bus.read(a).unwrap_or(0);
    [r(0xffff80), r(0xffff82), r(0xffff84), r(0xffff86), r(0xffff88)]
}

/// Run `elf` with `args` through the real loader and run loop while a twin predicts every
/// iteration. Returns the run result and the findings of the tracer.
pub fn traced_run(elf_path: &str, args: &str, with_twin: bool, max_ticks: u64) -> (RunResult, Vec<(String, String)>) {
    traced_run_from(elf_path, args, with_twin, max_ticks, 0, &[0; 11])
}

/// A port message that announces the value already announced last for that port (0 after reset)
/// carries no information; the properties allow such repetitions (C16) and do not require them, so
/// they are removed from both streams before the sequences are compared.
pub fn drop_redundant_port_messages(msgs: &[String]) -> Vec<String> {
    pinned_messages(msgs, false)
}

/// ... optionally without the stamps of the port messages (they are checked on their own against the
/// state count of the iteration that emitted them)
pub fn pinned_messages(msgs: &[String], strip_stamps: bool) -> Vec<String> {
    let mut last = [0u32; 16];
    let mut out = vec![];
    for m in msgs {
        if let Some(rest) = m.strip_prefix("ioport:") {
            let f: Vec<&str> = rest.split(':').collect();
            if f.len() == 3 {
                if let (Ok(p), Ok(v)) = (usize::from_str_radix(f[0], 16), u32::from_str_radix(f[1], 16)) {
                    if p < 16 {
                        if last[p] == v {
                            continue;
                        }
                        last[p] = v;
                    }
                    if strip_stamps {
                        out.push(format!("ioport:{}:{}", f[0], f[1]));
                        continue;
                    }
                }
            }
        }
        // message kinds no property mentions (statistics, ...) are not compared
        if m.starts_with("sync:") || m.starts_with("stdout:") || m.starts_with("ioport:") {
            out.push(m.clone());
        }
    }
    out
}

/// As `traced_run`, with the state count starting at `start` (a system that has been running for a
/// long time: counters beyond 2^31 / 2^32).
pub fn traced_run_from(elf_path: &str, args: &str, with_twin: bool, max_ticks: u64, start: u64, pins: &[u8; 11]) -> (RunResult, Vec<(String, String)>) {
    traced_run_armed(elf_path, args, with_twin, max_ticks, start, pins, None)
}

/// `arm_at`: (iteration, value) - for runs without a twin, repeat the TCNT0 poke a twinned run of the
/// same program made at that iteration (see "reaches the exit address" below)
pub fn traced_run_armed(elf_path: &str, args: &str, with_twin: bool, max_ticks: u64, start: u64, pins: &[u8; 11], arm_at: Option<(u64, u8)>) -> (RunResult, Vec<(String, String)>) {
    let mut rig = RunRig::new();
    crate::elf::load(elf_path.to_string(), &mut rig.cpu, args.to_string());
    // external levels on the port pins (they matter for mixed-direction ports)
    for (p, v) in pins.iter().enumerate() {
        if *v != 0 {
            rig.cpu.bus.write_port(p as u8 + 1, *v);
        }
    }
    let _ = rig.drain();
    let trace = shared(Trace::default());
    let stop_tx = rig.to_emu.clone();
    let twin_rig = if with_twin {
        let mut t = RunRig::new();
        crate::elf::load(elf_path.to_string(), &mut t.cpu, args.to_string());
        for (p, v) in pins.iter().enumerate() {
            if *v != 0 {
                t.cpu.bus.write_port(p as u8 + 1, *v);
            }
        }
        let _ = t.drain();
        t.cpu.verif_set_pc(t.cpu.er[2]);
        let _ = t.cpu.verif_init_registers();
        Some(shared(t))
    } else {
        None
    };
    let tr = trace.clone();
    let tw = twin_rig.clone();
    let rx = rig.from_emu.clone();
    let tick = Box::new(move |cpu: &mut Cpu| {
        let mut t = tr.borrow_mut();
        t.ticks += 1;
        if t.ticks == 1 && start != 0 {
            // (the count itself was preset before run() was entered)
            if let Some(tw) = &tw {
                tw.borrow_mut().cpu.bus.cpu_state_sum = start as usize;
            }
            t.sum = start;
        }
        if t.stopped {
            return;
        }
        if t.ticks > max_ticks {
            // the twin runs in lock step and has not finished either: the guest program simply does
            // not terminate within the limit - nothing can be concluded (not a violation)
            t.gave_up = true;
            t.stopped = true;
            let _ = stop_tx.send("cmd:stop".to_string());
            return;
        }
        if let Some((k, v)) = arm_at {
            if t.ticks == k {
                crate::mon::real_poke(cpu, 0xffff88, v);
            }
        }
        {
            // messages emitted since the previous tick belong to the iteration in between
            let now = cpu.verif_state_sum() as u64;
            let before = if t.ticks <= 1 { now } else { t.sum_at_last_tick };
            for m in rx.try_iter() {
                t.stamped.push((m, before, now));
            }
            t.sum_at_last_tick = now;
        }
        let Some(tw) = &tw else { return };
        let mut twin = tw.borrow_mut();
        let sum = cpu.verif_state_sum() as u64;
        if t.ticks > 1 {
            // ---- accounting of the instruction executed since the previous tick
            let delta = sum.wrapping_sub(t.sum);
            let s = t.last_states as u64;
            if t.k.is_none() {
                if s == 0 || delta % s != 0 || delta / s == 0 {
                    t.findings.push(("accounting.speed-factor".into(), format!("first instruction returned {} states, state count advanced by {}", s, delta)));
                    t.k = Some(1);
                } else {
                    t.k = Some(delta / s);
                }
            }
            let k = t.k.unwrap();
            if delta != k * s {
                let n = t.ticks;
                t.findings.push(("accounting.state-sum".into(), format!("iteration {}: instruction returned {} states (x{}), state count advanced by {}", n - 1, s, k, delta)));
            }
            // (which field carries the time base of the port stamps is the emulator's business: the
            // stamps themselves are checked against the state count below)
            // sync message expected?
            let before = t.sum;
            if (sum - start) / SYNC_INTERVAL > (before - start) / SYNC_INTERVAL {
                t.expected_msgs.push(format!("sync:{}", sum));
                t.crossed += 1;
            }
            t.sum = sum;
        }
        if let Some(end) = t.twin_done.clone() {
            let n = t.ticks;
            t.findings.push(("continues-past-end".into(), format!("iteration {} runs although the program ended with {:?} one iteration earlier", n, end)));
            t.stopped = true;
            let _ = stop_tx.send("cmd:stop".to_string());
            return;
        }
        // ---- state at this boundary must equal the twin's. A run loop may accept a pending request
        // at the end of an iteration instead of at the start of the next one (the same instruction
        // boundary): if the states differ and the twin has a request pending, it accepts first.
        let mut pre_accepted = false;
        if (twin.cpu.verif_pc() != cpu.verif_pc() || twin.cpu.er != cpu.er || twin.cpu.verif_ccr() != cpu.verif_ccr()) && !twin.cpu.verif_pending().is_empty() {
            let _ = catch_unwind(AssertUnwindSafe(|| twin.cpu.verif_try_interrupt()));
            pre_accepted = true;
        }
        let (tp, rp) = (twin.cpu.verif_pc(), cpu.verif_pc());
        if tp != rp || twin.cpu.er != cpu.er || twin.cpu.verif_ccr() != cpu.verif_ccr() {
            let n = t.ticks;
            t.findings.push(("trace-divergence".into(), format!("iteration {}: run loop at PC={:06x} CCR={:02x} ER={:x?}, twin (same step engine) at PC={:06x} CCR={:02x} ER={:x?}", n, rp, cpu.verif_ccr(), cpu.er, tp, twin.cpu.verif_ccr(), twin.cpu.er)));
            t.stopped = true;
            let _ = stop_tx.send("cmd:stop".to_string());
            return;
        }
        if timer_regs(&twin.cpu) != timer_regs(cpu) || sorted(twin.cpu.verif_pending()) != sorted(cpu.verif_pending()) {
            let n = t.ticks;
            t.findings.push(("peripheral-time".into(), format!("iteration {}: timer registers {:02x?} pending {:?}; twin fed with the charged states has {:02x?} pending {:?}", n, timer_regs(cpu), cpu.verif_pending(), timer_regs(&twin.cpu), twin.cpu.verif_pending())));
            t.stopped = true;
            let _ = stop_tx.send("cmd:stop".to_string());
            return;
        }
        // ---- advance the twin by one run-loop iteration
        let k = t.k.unwrap_or(3);
        let r = catch_unwind(AssertUnwindSafe(|| -> Result<u8, String> {
            if !pre_accepted {
                twin.cpu.verif_try_interrupt().map_err(|e| format!("{:#}", e))?;
            }
            let s = twin.cpu.verif_step().map_err(|e| format!("{:#}", e))?;
            Ok(s)
        }));
        match r {
            Ok(Ok(s)) => {
                // the instruction of this iteration reaches the exit address: if the guest has the
                // timer running with the compare-match interrupt enabled and I clear, let the match
                // fall into this very instruction (TCNT0 := TCORA0 - 1 on both machines, before either
                // has charged it) - the request is then pending when PC equals the exit address, and
                // the run must still end there
                if twin.cpu.verif_pc() == twin.cpu.exit_addr && twin.cpu.verif_ccr() & 0x80 == 0 {
                    let tr0 = timer_regs(&twin.cpu);
                    if tr0[0] & 7 != 0 && tr0[0] & 0x40 != 0 && tr0[2] != 0 {
                        let v = tr0[2].wrapping_sub(1);
                        crate::mon::real_poke(&mut twin.cpu, 0xffff88, v);
                        crate::mon::real_poke(cpu, 0xffff88, v);
                        t.armed_at_exit += 1;
                        t.armed = Some((t.ticks, v));
                    }
                }
                t.last_states = s as u32;
                let scaled = s as u64 * k;
                let tsum = twin.cpu.bus.cpu_state_sum + scaled as usize;
                // messages the instruction itself produced (console, ports) come before the sync message
                for m in twin.drain() {
                    t.expected_msgs.push(m);
                }
                twin.cpu.bus.cpu_state_sum = tsum;
                // the charged amount reaches the peripherals (in slices of at most 255 states)
                let mut left = scaled;
                while left > 0 {
                    let sl = left.min(255);
                    let _ = twin.cpu.verif_update_modules(sl as u8);
                    left -= sl;
                }
                if twin.cpu.verif_pc() == twin.cpu.exit_addr {
                    t.twin_done = Some(RunEnd::Ok);
                }
            }
            Ok(Err(e)) => {
                t.last_states = 0;
                t.twin_done = Some(RunEnd::Err(e));
            }
            Err(_) => {
                let p = take_panic().unwrap_or_default();
                t.twin_done = Some(RunEnd::Panic(p.msg));
            }
        }
    });
    if start != 0 {
        rig.cpu.verif_set_state_sum(start as usize);
    }
    let end = run_with_hook(&mut rig.cpu, tick);
    let mut t = trace.borrow_mut();
    {
        let now = rig.cpu.verif_state_sum() as u64;
        let before = t.sum_at_last_tick;
        for m in rig.drain() {
            t.stamped.push((m, before, now));
        }
    }
    let msgs: Vec<String> = t.stamped.iter().map(|x| x.0.clone()).collect();
    let mut findings = std::mem::take(&mut t.findings);
    if with_twin && !t.stopped {
        // final accounting for the last instruction and the end condition
        let sum = rig.cpu.verif_state_sum() as u64;
        match (&t.twin_done, &end) {
            (Some(RunEnd::Ok), RunEnd::Ok) => {
                // the state the run loop leaves behind equals the twin's after its last instruction
                // (registers, flags, timer registers as seen by the peripherals, pending requests)
                if let Some(tw) = &twin_rig {
                    let twin = tw.borrow();
                    if twin.cpu.er != rig.cpu.er || twin.cpu.verif_ccr() != rig.cpu.verif_ccr() || twin.cpu.verif_pc() != rig.cpu.verif_pc() {
                        findings.push(("final-state".into(), format!("run() ended with PC={:06x} CCR={:02x} ER={:x?}; twin ended with PC={:06x} CCR={:02x} ER={:x?}", rig.cpu.verif_pc(), rig.cpu.verif_ccr(), rig.cpu.er, twin.cpu.verif_pc(), twin.cpu.verif_ccr(), twin.cpu.er)));
                    }
                    if timer_regs(&twin.cpu) != timer_regs(&rig.cpu) || sorted(twin.cpu.verif_pending()) != sorted(rig.cpu.verif_pending()) {
                        findings.push(("peripheral-time".into(), format!("after the last instruction the timer registers are {:02x?} (pending {:?}); a twin whose peripherals saw every charged state has {:02x?} (pending {:?})", timer_regs(&rig.cpu), rig.cpu.verif_pending(), timer_regs(&twin.cpu), twin.cpu.verif_pending())));
                    }
                }
                let k = t.k.unwrap_or(3);
                let delta = sum.wrapping_sub(t.sum);
                if delta != k * t.last_states as u64 {
                    findings.push(("accounting.state-sum".into(), format!("last instruction returned {} states (x{}), state count advanced by {}", t.last_states, k, delta)));
                }
                if (sum - start) / SYNC_INTERVAL > (t.sum - start) / SYNC_INTERVAL {
                    t.expected_msgs.push(format!("sync:{}", sum));
                    t.crossed += 1;
                }
            }
            (Some(RunEnd::Err(e1)), RunEnd::Err(e2)) => {
                // "that error": the failing instruction's error, possibly wrapped in more context
                if !(e2.contains(e1.as_str()) || e1.contains(e2.as_str())) {
                    findings.push(("error-identity".into(), format!("run returned error {:?}, the failing instruction's error is {:?}", e2, e1)));
                }
            }
            (Some(RunEnd::Panic(_)), RunEnd::Panic(_)) => {}
            (want, got) => findings.push(("end-condition".into(), format!("run loop ended with {:?} after {} iterations; the twin says {:?}", got, t.ticks, want))),
        }
        // one time base, independent of the twin: every stamp the run emits (ioport:<p>:<v>:<stamp>,
        // sync:<total>) lies between the starting and the final state count and never decreases
        {
            let mut last = start;
            for (m, lo, hi) in &t.stamped {
                let stamp = if let Some(x) = m.strip_prefix("sync:") {
                    x.parse::<u64>().ok()
                } else if m.starts_with("ioport:") {
                    m.rsplit(':').next().and_then(|x| x.parse::<u64>().ok())
                } else {
                    continue;
                };
                // messages before the first instruction carry the starting count
                let lo = (*lo).min(*hi);
                match stamp {
                    Some(s) if s >= last && s >= lo && s <= *hi => last = s,
                    _ => {
                        findings.push(("time-base".into(), format!("message {:?}: stamp outside [{}, {}] (state count before / after the loop iteration that emitted it; previous stamp {})", m, lo, hi, last)));
                        break;
                    }
                }
            }
        }
        let (msgs_n, expected_n) = (pinned_messages(&msgs, true), pinned_messages(&t.expected_msgs, true));
        let (msgs_c, expected_c) = (&msgs_n, &expected_n);
        if msgs_c != expected_c {
            let (msgs, expected_msgs) = (msgs_c, expected_c);
            let i = msgs.iter().zip(expected_msgs.iter()).position(|(a, b)| a != b).unwrap_or(msgs.len().min(expected_msgs.len()));
            let aspect = if msgs.get(i).map(|m| m.starts_with("sync:")).unwrap_or(false) || expected_msgs.get(i).map(|m| m.starts_with("sync:")).unwrap_or(false) { "sync-messages" } else { "message-sequence" };
            findings.push((aspect.into(), format!("message {} (repeated port announcements removed) is {:?}, expected {:?} ({} emitted, {} expected, {} thresholds crossed)", i, msgs.get(i), expected_msgs.get(i), msgs.len(), expected_msgs.len(), t.crossed)));
        }
    }
    let res = RunResult { end, regs: rig.cpu.er, state_sum: rig.cpu.verif_state_sum() as u64, digest: mem_digest(&rig.cpu), msgs, ticks: t.ticks, gave_up: t.gave_up, armed: t.armed };
    (res, findings)
}

pub fn c13_case(rep: &mut Report, seed: u64, verbose: bool) -> bool {
    let mut rng = Rng::new(seed);
    let plant = match rng.below(10) {
        0 | 1 => 1,
        2 | 3 => 2,
        4 => 3,
        5 => 4,
        _ => 0,
    };
    // totals on both sides of 1-4 sync thresholds (scaled states)
    let target = match rng.below(6) {
        0 => 300_000,
        1 => 1_900_000 + rng.below(200_000),
        2 => 2_000_000 + rng.below(400_000),
        3 => 4_000_000 + rng.below(300_000),
        4 => 5_900_000 + rng.below(400_000),
        _ => 500_000 + rng.below(7_000_000),
    };
    // one program in three (no planted fault) is tuned so that its LAST instruction is the one that
    // carries the state count across a multiple of 2,000,000
    let tuned = plant == 0 && rng.chance(1, 3);
    let prog = if tuned { tune_to_threshold(&mut rng, target.min(2_500_000)) } else { gen_prog(&mut rng, target, plant) };
    let elf = simple_elf(&prog.image, 64, prog.exit_vaddr, 0x400, seed);
    let path = scratch_path(&format!("c13-{}.elf", seed));
    std::fs::write(&path, &elf).expect("write elf");
    let args = if rng.chance(1, 2) { "a bc".to_string() } else { String::new() };
    let replay = format!("check=C13 kind=runloop seed={}", seed);
    // one program in four runs on a system that has been up for a long time (state count near a power of two)
    let start: u64 = if rng.chance(1, 4) { (1u64 << *rng.pick(&[31u32, 32, 32, 33, 40])) - rng.below(6000) } else { 0 };
    let (res, findings) = traced_run_from(&path, &args, true, 6_000_000, start, &prog.pins);
    rep.evaluations += 1;
    rep.cell("start-count-magnitude", &[(64 - start.leading_zeros()) as u64]);
    if res.gave_up {
        rep.count("programs_not_finished_within_iteration_limit (inconclusive, skipped)", 1);
        let _ = std::fs::remove_file(&path);
        return false;
    }
    rep.count("run_loop_iterations_traced", res.ticks);
    rep.count("messages_checked", res.msgs.len() as u64);
    let syncs = res.msgs.iter().filter(|m| m.starts_with("sync:")).count() as u64;
    rep.count("sync_messages_seen", syncs);
    let endk = match res.end {
        RunEnd::Ok => 0,
        RunEnd::Err(_) => 1,
        RunEnd::Panic(_) => 2,
    };
    rep.cell("shape-thresholds-end", &[prog.shape[0], prog.shape[1], prog.shape[2], syncs.min(5), endk]);
    let mut bad = false;
    for (a, t) in &findings {
        bad = true;
        rep.finding(&format!("runloop|{}", a), || format!("{} [program seed={}: {}]", t, seed, prog.desc), || replay.clone());
        if verbose {
            println!("  FINDING {}: {}", a, t);
        }
    }
    if verbose {
        println!("  program: {}; end {:?}; {} iterations; state_sum {}; {} messages ({} sync)", prog.desc, res.end, res.ticks, res.state_sum, res.msgs.len(), syncs);
    }
    // ---- determinism: plain re-runs in this process (idle / under busy threads), no twin
    if plant == 0 && rng.chance(1, 2) {
        let busy = std::sync::Arc::new(std::sync::atomic::AtomicBool::new(true));
        let mut runs = vec![];
        for mode in 0..3 {
            let mut handles = vec![];
            if mode == 1 {
                for _ in 0..12 {
                    let b = busy.clone();
                    handles.push(std::thread::spawn(move || {
                        let mut x = 1u64;
                        while b.load(std::sync::atomic::Ordering::Relaxed) {
                            x = x.wrapping_mul(6364136223846793005).wrapping_add(1);
                            std::hint::black_box(x);
                        }
                    }));
                }
            }
            let (r, _) = traced_run_armed(&path, &args, false, 6_000_000, start, &prog.pins, res.armed);
            busy.store(false, std::sync::atomic::Ordering::Relaxed);
            for h in handles {
                let _ = h.join();
            }
            busy.store(true, std::sync::atomic::Ordering::Relaxed);
            runs.push(r);
            rep.cell("determinism-mode", &[mode]);
        }
        rep.count("determinism_reruns", runs.len() as u64);
        for (i, r) in runs.iter().enumerate() {
            if r.end != res.end || r.regs != res.regs || r.state_sum != res.state_sum || r.digest != res.digest || r.msgs != res.msgs {
                bad = true;
                rep.finding(
                    "runloop|nondeterminism",
                    || format!("re-run {} of the same program differs: end {:?}/{:?}, state_sum {}/{}, memory digest {:x}/{:x}, {} vs {} messages [program seed={}: {}]", i, r.end, res.end, r.state_sum, res.state_sum, r.digest, res.digest, r.msgs.len(), res.msgs.len(), seed, prog.desc),
                    || replay.clone(),
                );
            }
        }
    }
    let _ = std::fs::remove_file(&path);
    rep.sample(|| format!("program seed={} ({}): end {:?}, {} iterations, state_sum {}, messages {:?}...", seed, prog.desc, res.end, res.ticks, res.state_sum, res.msgs.iter().take(4).collect::<Vec<_>>()));
    bad
}

/// the real release binary (guard off) run on a generated ELF: stdout must be identical across
/// repeated runs (idle, pinned to one CPU, under load) and equal to what the in-process message
/// log predicts.
pub fn binary_determinism(rep: &mut Report, seed: u64) {
    let bin = &crate::runrig::real_binary();
    if !std::path::Path::new(bin).exists() {
        rep.inconclusive.push("real release binary not built".into());
        return;
    }
    let mut rng = Rng::new(seed);
    let target = 2_100_000 + rng.below(300_000);
    let prog = gen_prog(&mut rng, target, 0);
    let elf = simple_elf(&prog.image, 64, prog.exit_vaddr, 0x400, seed);
    let path = scratch_path(&format!("c13bin-{}.elf", seed));
    std::fs::write(&path, &elf).expect("write elf");
    let (res, _) = traced_run(&path, "", false, 40_000_000);
    // what must show up on stdout with `-m`, in this order: the console text of every stdout message
    // (raw), and the text of every sync / ioport message somewhere in its echo line
    let mut needles: Vec<Vec<u8>> = vec![];
    for m in drop_redundant_port_messages(&res.msgs) {
        if let Some(t) = m.strip_prefix("stdout:") {
            needles.push(t.as_bytes().to_vec());
        } else {
            needles.push(m.as_bytes().to_vec());
        }
    }
    let replay = format!("check=C13 kind=binary seed={}", seed);
    let mut outs = vec![];
    let mut slowest = std::time::Duration::from_millis(0);
    // modes 0-3: same command line idle / pinned / under load / again; 4: -w without a socket (there is
    // nobody to wait for: the option has no effect); 5: -i (opcode trace on stdout: only the final
    // state count and the exit status are compared)
    for mode in 0..6 {
        let mut cmd = if mode == 1 && std::path::Path::new("/usr/bin/taskset").exists() {
            let mut c = std::process::Command::new("taskset");
            c.args(["-c", "0", bin]);
            c
        } else {
            std::process::Command::new(bin)
        };
        cmd.args(["-e", &path, "-m", "--log", "info"]);
        if mode == 4 {
            cmd.arg("-w");
        }
        if mode == 5 {
            cmd.arg("-i");
        }
        let mut burners = vec![];
        if mode == 2 {
            for _ in 0..24 {
                if let Ok(c) = std::process::Command::new("sh").args(["-c", "while :; do :; done"]).spawn() {
                    burners.push(c);
                }
            }
        }
        // bounded wait: the plain runs give the time scale (the program is the same)
        let t0 = std::time::Instant::now();
        let limit = if mode < 4 { std::time::Duration::from_secs(600) } else { (slowest * 200).max(std::time::Duration::from_secs(40)) };
        let out = match cmd.stdout(std::process::Stdio::piped()).stderr(std::process::Stdio::piped()).spawn() {
            Ok(mut child) => {
                // drain the pipes on threads so that a chatty child cannot block on a full pipe
                let mut so = child.stdout.take().unwrap();
                let mut se = child.stderr.take().unwrap();
                let h1 = std::thread::spawn(move || {
                    let mut v = vec![];
                    let _ = std::io::Read::read_to_end(&mut so, &mut v);
                    v
                });
                let h2 = std::thread::spawn(move || {
                    let mut v = vec![];
                    let _ = std::io::Read::read_to_end(&mut se, &mut v);
                    v
                });
                let mut status = None;
                while t0.elapsed() < limit {
                    match child.try_wait() {
                        Ok(Some(s)) => {
                            status = Some(s);
                            break;
                        }
                        Ok(None) => std::thread::sleep(std::time::Duration::from_millis(5)),
                        Err(_) => break,
                    }
                }
                if status.is_none() {
                    let _ = child.kill();
                    let _ = child.wait();
                }
                let (o, e) = (h1.join().unwrap_or_default(), h2.join().unwrap_or_default());
                match status {
                    Some(s) => Ok((o, e, s.success())),
                    None => Err(format!("still running after {:?} (the same program took at most {:?} with the plain command line)", limit, slowest)),
                }
            }
            Err(e) => Err(format!("spawn: {}", e)),
        };
        if mode < 4 {
            slowest = slowest.max(t0.elapsed());
        }
        for mut b in burners {
            let _ = b.kill();
            let _ = b.wait();
        }
        rep.evaluations += 1;
        rep.cell("binary-mode", &[mode]);
        match out {
            Ok((stdout, stderr, ok)) => {
                let stderr = String::from_utf8_lossy(&stderr).to_string();
                // every number reported on a log line that talks about the state count (the log format
                // itself is not pinned by any property)
                let mut nums: Vec<u64> = vec![];
                for l in stderr.lines().filter(|l| l.to_ascii_lowercase().contains("state")) {
                    let mut cur = String::new();
                    for ch in l.chars().chain(std::iter::once(' ')) {
                        if ch.is_ascii_digit() {
                            cur.push(ch);
                        } else {
                            if let Ok(n) = cur.parse::<u64>() {
                                nums.push(n);
                            }
                            cur.clear();
                        }
                    }
                }
                let state_line = if nums.is_empty() { None } else { Some(nums) };
                // the opcode trace of -i is not compared
                let stdout = if mode == 5 { None } else { Some(stdout) };
                outs.push((stdout, state_line, ok));
            }
            Err(e) if mode >= 4 && e.starts_with("still running") => {
                rep.finding("binary|does-not-terminate", || format!("release binary with {} on a terminating program: {} (seed {})", if mode == 4 { "-w (no socket)" } else { "-i" }, e, seed), || replay.clone());
            }
            Err(e) => rep.inconclusive.push(format!("could not run the release binary: {}", e)),
        }
    }
    for (i, (so, st, ok)) in outs.iter().enumerate() {
        if !ok {
            rep.finding("binary|exit-status", || format!("release binary run {} did not exit successfully on a terminating program (seed {})", i, seed), || replay.clone());
        }
        // every message of the in-process run (console texts raw, sync / ioport messages as text)
        // must appear on the binary's stdout (-m), in order; the echo format and anything else the
        // binary prints are not pinned by a property
        if let Some(so) = so {
            let mut pos = 0usize;
            for (k, needle) in needles.iter().enumerate() {
                if needle.is_empty() {
                    continue;
                }
                match so[pos..].windows(needle.len()).position(|w| w == &needle[..]) {
                    Some(off) => pos += off + needle.len(),
                    None => {
                        rep.finding(
                            "binary|stdout-differs-from-in-process-run",
                            || format!("release binary run {}: message {} of the in-process run ({:?}) does not appear (in order) on stdout ({} bytes, searched from offset {}) (seed {})", i, k, String::from_utf8_lossy(needle), so.len(), pos, seed),
                            || replay.clone(),
                        );
                        break;
                    }
                }
            }
        }
        if let Some(nums) = st {
            if !nums.contains(&res.state_sum) {
                rep.finding("binary|state-count", || format!("release binary logs state counts {:?}, in-process run counted {} (seed {})", &nums[..nums.len().min(6)], res.state_sum, seed), || replay.clone());
            }
        }
    }
    let _ = std::fs::remove_file(&path);
}

pub fn c13(rep: &mut Report, cfg: &Cfg) {
    let mut rng = cfg.rng("C13");
    let n = cfg.share(cfg.n(24, 480)).max(2);
    for _ in 0..n {
        let seed = rng.next();
        c13_case(rep, seed, false);
    }
    if cfg.shard < 2 || cfg.tier_thorough {
        binary_determinism(rep, rng.next());
    }
    // the sync grid under pause / resume traffic (no twin involved)
    for _ in 0..(if cfg.tier_thorough { 4 } else { (cfg.shard < 6) as u64 }) {
        sync_grid_case(rep, rng.next(), false);
    }
    // the terminating example programs of the repository
    if cfg.shard == 0 {
        for name in ["printf.elf", "example2.elf", "example3.elf"] {
            let repo = std::env::var("VERIF_REPO").unwrap_or_else(|_| "/repo".to_string());
            let path = format!("{}/example/{}", repo, name);
            if std::path::Path::new(&path).exists() {
                let (res, findings) = traced_run(&path, "", true, 20_000_000);
                rep.evaluations += 1;
                rep.count("run_loop_iterations_traced", res.ticks);
                rep.cell("example", &[crate::util::hash_str(name)]);
                for (a, t) in findings {
                    rep.finding(&format!("runloop|{}", a), || format!("{} [example/{}]", t, name), || format!("check=C13 kind=example name={}", name));
                }
                rep.sample(|| format!("example/{}: end {:?}, {} iterations, state_sum {}, {} messages", name, res.end, res.ticks, res.state_sum, res.msgs.len()));
            }
        }
    }
    rep.notes.push("C13: generated terminating programs (straight-line blocks, counted loops, calls, port writes, console output, optional timer with a handler installed through the MES call; some with a planted unimplemented opcode or unmapped access) loaded by the real loader and run by the real run(); the per-iteration hook compares PC/registers/CCR/timer/pending queue with a twin driven by the same step engine, checks state_sum += k x returned states (k inferred), one sync:<total> per crossed multiple of 2,000,000, the sequence of sync/stdout/ioport messages (other kinds and repeated port announcements are not compared; port stamps are judged on their own: within the state count before/after the iteration that emitted them, never decreasing), and that run() ends exactly where the twin ends (Ok at the exit address, the failing instruction's error otherwise). The twin tolerates acceptance of a pending request at either end of an iteration. Extra dimensions: state counts preset beyond 2^31/2^32/2^33/2^40, external pin levels, faults directly before the exit address, a timer match steered into the instruction that reaches the exit address. Determinism: re-runs idle and under busy threads in-process; the release binary with -m idle / pinned / under load / with -w / with -i: its stdout must contain the in-process messages in order, its log the final state count, exit status success. Cells: (loops, io blocks, timer, sync thresholds crossed, end kind), determinism modes, binary modes, examples.".into());
}

pub fn replay(line: &str) -> (bool, String) {
    let seed: u64 = line.split_whitespace().find_map(|t| t.strip_prefix("seed=")).and_then(|v| v.parse().ok()).unwrap_or(0);
    let mut rep = Report::new("C13");
    if line.contains("kind=binary") {
        binary_determinism(&mut rep, seed);
    } else {
        c13_case(&mut rep, seed, true);
    }
    let mut out = String::new();
    for f in rep.findings.values() {
        out.push_str(&format!("  FINDING {}: {}\n", f.sig, f.detail));
    }
    (!rep.findings.is_empty(), out)
}


/// The sync grid under control traffic: a spinning guest run across three multiples of 2,000,000
/// states while the control channel pauses and resumes it (and sends redundant starts) at random
/// iterations. Independent of any twin: the k-th `sync:<total>` must carry a total in
/// [k x 2,000,000, k x 2,000,000 + 3 x 255) - the count passed the k-th multiple in the instruction
/// that was charged last - and there must be floor(final total / 2,000,000) of them.
pub fn sync_grid_case(rep: &mut Report, seed: u64, verbose: bool) -> bool {
    let mut rng = Rng::new(seed);
    let mut rig = RunRig::new();
    const SPIN: u32 = 0xffc000;
    crate::mon::real_poke(&mut rig.cpu, SPIN, 0x40);
    crate::mon::real_poke(&mut rig.cpu, SPIN + 1, 0xfe);
    rig.cpu.er[2] = SPIN;
    rig.cpu.er[7] = 0xffe000;
    rig.cpu.exit_addr = 0x00ff_fff0;
    let goal: u64 = 3 * SYNC_INTERVAL + 100_000 + rng.below(400_000);
    // control events by state count (so that they land anywhere relative to the grid)
    let mut events: Vec<(u64, &'static str)> = vec![];
    for _ in 0..(3 + rng.below(6)) {
        let at = rng.below(goal);
        if rng.chance(1, 3) {
            events.push((at, "cmd:start"));
        } else {
            events.push((at, "cmd:pause")); // the matching start follows a few paused iterations later
        }
    }
    // some right around the multiples
    for k in 1..=3u64 {
        if rng.chance(1, 2) {
            let at = k * SYNC_INTERVAL - 40 + rng.below(80);
            events.push((at, "cmd:pause"));
        }
    }
    events.sort();
    struct St {
        next: usize,
        hold: u64,
        stopped: bool,
        ticks: u64,
    }
    let st = shared(St { next: 0, hold: 0, stopped: false, ticks: 0 });
    let s2 = st.clone();
    let tx = rig.to_emu.clone();
    let ev = events.clone();
    let tick = Box::new(move |cpu: &mut Cpu| {
        let mut s = s2.borrow_mut();
        s.ticks += 1;
        if s.stopped {
            if s.ticks > 40_000_000 {
                std::panic::resume_unwind(Box::new("h8mon: run() did not end after cmd:stop"));
            }
            return;
        }
        let sum = cpu.verif_state_sum() as u64;
        if s.hold > 0 {
            // a pause was sent: the matching start follows after a few (paused) iterations
            s.hold -= 1;
            if s.hold == 0 {
                let _ = tx.send("cmd:start".to_string());
            }
            return;
        }
        while s.next < ev.len() && ev[s.next].0 <= sum {
            let (_, line) = ev[s.next];
            let _ = tx.send(line.to_string());
            s.next += 1;
            if line == "cmd:pause" {
                s.hold = 3 + (sum % 5);
                return;
            }
        }
        if sum >= goal || s.ticks > 30_000_000 {
            let _ = tx.send("cmd:stop".to_string());
            s.stopped = true;
        }
    });
    let end = run_with_hook(&mut rig.cpu, tick);
    let total = rig.cpu.verif_state_sum() as u64;
    let msgs = rig.drain();
    let syncs: Vec<u64> = msgs.iter().filter_map(|m| m.strip_prefix("sync:")).filter_map(|x| x.parse().ok()).collect();
    rep.evaluations += 1;
    rep.cell("sync-grid", &[events.len() as u64, syncs.len() as u64]);
    rep.count("sync_grid_states_run", total);
    let replay = format!("check=C13 kind=syncgrid seed={}", seed);
    if verbose {
        println!("  sync grid seed={}: end {:?}, total {}, events {:?}, syncs {:?}", seed, end, total, events, syncs);
    }
    let mut bad = false;
    if end != RunEnd::Ok {
        rep.finding("syncgrid|run-did-not-stop-cleanly", || format!("run() ended with {:?} (seed {})", end, seed), || replay.clone());
        return true;
    }
    for (i, t) in syncs.iter().enumerate() {
        let k = i as u64 + 1;
        if *t < k * SYNC_INTERVAL || *t >= k * SYNC_INTERVAL + 3 * 255 {
            bad = true;
            rep.finding(
                "syncgrid|sync-off-the-grid",
                || format!("sync message {} carries total {}; the count passes {} in the instruction charged last, so it must lie in [{}, {}); control lines sent at state counts {:?} (seed {})", k, t, k * SYNC_INTERVAL, k * SYNC_INTERVAL, k * SYNC_INTERVAL + 765, events, seed),
                || replay.clone(),
            );
            break;
        }
    }
    if !bad && syncs.len() as u64 != total / SYNC_INTERVAL {
        bad = true;
        rep.finding("syncgrid|sync-count", || format!("{} sync messages for a final total of {} states (seed {})", syncs.len(), total, seed), || replay.clone());
    }
    bad
}
