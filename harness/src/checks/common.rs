//! Shared plumbing of the single-step checks (C01-C08, C15, C20).

use crate::mon::{Case, Diff, Lock, Obs, RealOutcome};
use crate::refmodel::decode::Insn;
use crate::refmodel::exec::Outcome;
use crate::util::{hash_str, panic_sig, Report};

#[derive(Clone, Copy)]
pub struct Judge {
    pub outcome: bool,
    pub regs: bool,
    pub ccr: bool,
    pub pc: bool,
    pub mem: bool,
    pub cost: bool,
    pub panics: bool,
    /// attribution: judge only steps whose EXECUTED instruction belongs to the property's class
    /// (operand placement can overlap the code bytes, so the executed instruction is what the
    /// reference decoded, not necessarily what the generator intended)
    pub only: Option<fn(&Insn) -> bool>,
}

impl Judge {
    pub const FULL: Judge = Judge { outcome: true, regs: true, ccr: true, pc: true, mem: true, cost: false, panics: false, only: None };
    pub const COST: Judge = Judge { outcome: false, regs: false, ccr: false, pc: false, mem: false, cost: true, panics: false, only: None };
    pub fn only(mut self, f: fn(&Insn) -> bool) -> Judge {
        self.only = Some(f);
        self
    }
    pub fn wants(&self, d: &Diff) -> bool {
        match d {
            Diff::RealErr(_) | Diff::RealOk => self.outcome,
            Diff::Reg { .. } => self.regs,
            Diff::Ccr { .. } => self.ccr,
            Diff::Pc { .. } => self.pc,
            Diff::Mem { .. } => self.mem,
            Diff::Cost { .. } => self.cost,
            Diff::Queue { .. } => self.pc,
        }
    }
}

pub fn describe(d: &Diff) -> String {
    match d {
        Diff::RealErr(e) => format!("reference executes the instruction, emulator returned Err({})", e.lines().next().unwrap_or("")),
        Diff::RealOk => "reference requires an error, emulator returned Ok".to_string(),
        Diff::Reg { i, real, model } => format!("ER{} = {:08x}, reference {:08x}", i, real, model),
        Diff::Ccr { real, model, mask } => format!("CCR = {:02x}, reference {:02x} (judged bits {:02x})", real, model, mask),
        Diff::Pc { real, model } => format!("PC = {:06x}, reference {:06x}", real, model),
        Diff::Mem { addr, real, model } => format!("mem[{:06x}] = {:02x}, reference {:02x}", addr, real, model),
        Diff::Cost { real, model } => format!("states = {}, reference {}", real, model),
        Diff::Queue { real, want } => format!("pending interrupt requests after the step {:?}, before it {:?} (an instruction must not touch them)", real, want),
    }
}

/// Turn one observation into coverage counts and findings. Returns true when the step was judged
/// (reference has an opinion and the emulator did not panic).
pub fn record(rep: &mut Report, check: &str, case: &Case, obs: &Obs, j: &Judge) -> bool {
    rep.evaluations += 1;
    let form = obs.step.label.map(|l| l.to_string()).unwrap_or_else(|| obs.step.insn.form());
    if let RealOutcome::Panic(p) = &obs.real {
        rep.count("panics_observed", 1);
        if j.panics {
            let sig = format!("{}|{}", form_or_class(&obs.step.insn, &form), panic_sig(p));
            rep.finding(&sig, || format!("panic at {}:{}: {} on {}", p.file, p.line, p.msg, case.to_line()), || format!("check={} kind=step {}", check, case.to_line()));
            return false;
        }
        // not a panic check: the panic itself is C15's, but where the reference says the instruction
        // executes, "it panicked instead" falls through as an outcome difference of this property
        if !matches!(obs.step.outcome, Outcome::Ok(_)) {
            return false;
        }
    }
    // overlapping data/address register in +/- forms: only the cycle mix (C20) and the decoder
    // aspects (C07) are judged, the value-level properties exclude these cases
    if obs.step.overlap && !j.cost {
        rep.count("unjudged", 1);
        return false;
    }
    if let Some(f) = j.only {
        if !matches!(obs.step.outcome, Outcome::Unjudged(_)) && !f(&obs.step.insn) {
            rep.count("executed_instruction_outside_property_class", 1);
            return false;
        }
    }
    match (&obs.step.outcome, &obs.real) {
        (Outcome::Unjudged(_), _) => {
            rep.count("unjudged", 1);
            return false;
        }
        (Outcome::Ok(_), RealOutcome::Ok(_)) => rep.count("judged_ok", 1),
        (Outcome::Err(_), RealOutcome::Err(_)) => rep.count("judged_err", 1),
        _ => rep.count("judged_outcome_mismatch", 1),
    }
    for d in &obs.diffs {
        if !j.wants(d) {
            rep.count("diffs_outside_property", 1);
            continue;
        }
        // one signature per differing CCR bit, so that signatures stay few and stable
        let aspects: Vec<String> = match d {
            Diff::Ccr { real, model, mask } => {
                let names = ["C", "V", "Z", "N", "U", "H", "UI", "I"];
                (0..8).filter(|b| ((real ^ model) & mask) & (1 << b) != 0).map(|b| format!("ccr.{}", names[b])).collect()
            }
            _ => vec![d.aspect(&obs.step)],
        };
        for a in aspects {
            let sig = format!("{}|{}", form, a);
            rep.finding(&sig, || format!("{}: {}; case {}", form, describe(d), case.to_line()), || format!("check={} kind=step {}", check, case.to_line()));
        }
    }
    true
}

fn form_or_class(i: &Insn, form: &str) -> String {
    use crate::refmodel::decode::Class;
    match i.class {
        Class::Undef => "undefined-encoding".to_string(),
        _ => form.to_string(),
    }
}

/// Drain the stray-write list of the full compares into findings.
pub fn drain_strays(rep: &mut Report, check: &str, lock: &mut Lock, j: &Judge) {
    rep.count("full_compares", lock.full_compares);
    lock.full_compares = 0;
    for (case, addr, real, model, judged) in lock.strays.drain(..) {
        match case {
            Some(c) if judged => {
                if !j.mem {
                    rep.count("diffs_outside_property", 1);
                    continue;
                }
                // the instruction that was really executed: code bytes with the patches laid over them
                let mut bytes = [0u8; 10];
                for (i, b) in c.code.iter().take(10).enumerate() {
                    bytes[i] = *b;
                }
                for (a, v) in &c.patches {
                    let d = a.wrapping_sub(c.pc & !1);
                    if d < 10 {
                        bytes[d as usize] = *v;
                    }
                }
                let ws: Vec<u16> = bytes.chunks(2).map(|b| ((b[0] as u16) << 8) | b[1] as u16).collect();
                let insn = crate::gen::decode_words(&ws);
                if let Some(f) = j.only {
                    if !f(&insn) {
                        rep.count("executed_instruction_outside_property_class", 1);
                        continue;
                    }
                }
                let form = insn.form();
                let sig = format!("{}|mem.stray", form);
                rep.finding(&sig, || format!("{}: stray write mem[{:06x}] = {:02x}, reference {:02x}; case {}", form, addr, real, model, c.to_line()), || {
                    format!("check={} kind=step {}", check, c.to_line())
                });
            }
            Some(_) => rep.count("stray_after_unjudged_step", 1),
            None => {
                rep.count("stray_unlocated", 1);
                if j.mem {
                    rep.finding("unlocated|mem.stray", || format!("memory differs from the reference at {:06x}: {:02x} vs {:02x}, culprit not reproducible", addr, real, model), || "-".to_string());
                }
            }
        }
    }
}

pub fn fid(form: &str) -> u64 {
    hash_str(form)
}

pub fn is_mov(i: &Insn) -> bool {
    i.mn == crate::refmodel::decode::Mn::Mov
}
pub fn is_arith(i: &Insn) -> bool {
    use crate::refmodel::decode::Mn::*;
    matches!(i.mn, Add | Sub | Cmp | Addx | Adds | Subs | Inc | Dec | Neg | Mulxu | Divxu)
}
pub fn is_logic(i: &Insn) -> bool {
    use crate::refmodel::decode::Mn::*;
    matches!(i.mn, And | Or | Xor | Not | Extu | Shll | Shal | Shlr | Shar | Rotxl | Rotl | Rotxr | Rotr)
}
pub fn is_bit(i: &Insn) -> bool {
    use crate::refmodel::decode::Mn::*;
    matches!(i.mn, Bset | Bnot | Bclr | Btst | Bst | Bist | Bld | Bild | Band | Biand | Bor | Bior | Bxor | Bixor)
}
pub fn is_flow(i: &Insn) -> bool {
    use crate::refmodel::decode::Mn::*;
    matches!(i.mn, Bcc | Jmp | Bsr | Jsr | Rts)
}
pub fn is_exception(i: &Insn) -> bool {
    use crate::refmodel::decode::Mn::*;
    // interrupt acceptance is recorded with an undefined pseudo-instruction
    matches!(i.mn, Trapa | Rte | Undef)
}
