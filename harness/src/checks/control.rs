//! C18 — control-socket lines apply exactly once in arrival order whatever the batching;
//! outgoing messages are framed reversibly. In-process part (deterministic batches through the
//! channel-backed socket) and end-to-end part (release binary, real TCP, hostile chunking).

use crate::asm::Asm;
use crate::checks::elfcheck::BASE;
use crate::cpu::Cpu;
use crate::mon::{real_peek, real_poke};
use crate::runrig::{run_with_hook, scratch_path, shared, simple_elf, RunEnd, RunRig};
use crate::util::{Cfg, Report, Rng};
use std::collections::HashMap;
use std::io::{Read, Write};

const SPIN: u32 = 0x420000;

#[derive(Clone, Debug, PartialEq)]
pub enum Line {
    Pause,
    Start,
    Stop,
    U8(u32, u8),
    Port(u8, u8),
    /// anything the emulator must ignore
    Junk(String),
}
impl Line {
    pub fn text(&self, rng_case: u64) -> String {
        let up = rng_case % 3 == 0;
        match self {
            Line::Pause => "cmd:pause".into(),
            Line::Start => "cmd:start".into(),
            Line::Stop => "cmd:stop".into(),
            Line::U8(a, v) => {
                if up {
                    format!("u8:{:X}:{:X}", a, v)
                } else {
                    format!("u8:{:x}:{:x}", a, v)
                }
            }
            Line::Port(p, v) => format!("ioport:{:x}:{:x}", p, v),
            Line::Junk(s) => s.clone(),
        }
    }
}

pub fn junk(rng: &mut Rng) -> String {
    let pool = [
        "", "cmd", "cmd:", "cmd:pause:now", "cmd:start:1:2", "cmd:halt", "cmd:PAUSE", "cmd::stop", "stop", "u8", "u8:", "u8:ffc100", "u8:ffc100:", "u8:ffc100:1:2", "u8:zz:1", "u8:ffc100:zz",
        "u8:ffc100:100", "u8:ffc100:-1", "u8:1000000:5", "u8:300000:5", "u8:ffffffffff:1", "u8: ffc100:1", "u8:ffc100:1 ", "ioport", "ioport:1", "ioport:1:2:3", "ioport:0:ff", "ioport:c:ff",
        "ioport:ff:1", "ioport:g:1", "ioport:1:100", "sync:5", "ready", "stdout:hi", "u16:ffc100:1", "\u{3042}:1:2", "cmd:\u{3042}", "u8:\u{ff11}:1", ":", "::", ":::", "cmd:stop:", " cmd:stop",
        "cmd:stop ", "CMD:stop", "u8:0x10:1", "u8:ffc100:0x1",
    ];
    if rng.chance(3, 4) {
        rng.pick(&pool).to_string()
    } else {
        let n = rng.below(24) as usize;
        (0..n).map(|_| *rng.pick(&[':', 'c', 'm', 'd', 'u', '8', 'f', '0', '1', 'z', ' ', '-', 'i', 'o'])).collect()
    }
}

fn is_really_junk(s: &str) -> bool {
    // guard: a random string that happens to be well-formed is not junk
    let f: Vec<&str> = s.split(':').collect();
    match f[0] {
        "cmd" => f.len() != 2 || !matches!(f[1], "pause" | "start" | "stop"),
        "u8" => !(f.len() == 3 && u32::from_str_radix(f[1], 16).is_ok() && u8::from_str_radix(f[2], 16).is_ok()),
        "ioport" => !(f.len() == 3 && u8::from_str_radix(f[1], 16).is_ok() && u8::from_str_radix(f[2], 16).is_ok()),
        _ => true,
    }
}

pub fn gen_lines(rng: &mut Rng, n: usize, with_stop_inside: bool) -> Vec<Line> {
    let mut v = vec![];
    let addrs = [0xffc100u32, 0xffc101, 0xffc102, 0x430000, 0x5fffff, 0xffff1f, 0xfee000, 0xfee001, 0xffffd0, 0xffffd1, 0xfee00a, 0xffffda, 0x000010];
    let stop_at = if with_stop_inside { rng.below(n as u64) as usize } else { usize::MAX };
    for i in 0..n {
        if i == stop_at {
            v.push(Line::Stop);
            continue;
        }
        let l = match rng.below(12) {
            0 => Line::Pause,
            1 => Line::Start,
            2 | 3 | 4 | 5 => Line::U8(*rng.pick(&addrs), if rng.chance(1, 2) { *rng.pick(&[0u8, 0xff, 0x0f, 0xf0, 0xaa, 0x55]) } else { rng.u8() }),
            6 | 7 => {
                // mostly ports 1-B; sometimes a well-formed line for a port that does not exist (ignored)
                let p = if rng.chance(1, 8) { *rng.pick(&[0u8, 12, 13, 0x7f, 0x80, 0xff]) } else { 1 + rng.below(11) as u8 };
                Line::Port(p, rng.u8())
            }
            _ => {
                let mut j = if rng.chance(1, 4) {
                    // numbers that do not fit their field but whose low bits would be a well-formed
                    // command on a location / port this session observes: not a valid line, so ignored
                    let (a, p, val) = (*rng.pick(&addrs), 1 + rng.below(11), rng.u8() | 1);
                    let hi = 1 + rng.below(15);
                    match rng.below(6) {
                        0 => format!("u8:{:x}{:08x}:{:x}", hi, a, val),
                        1 => format!("u8:{:x}00000000{:08x}:{:x}", hi, a, val),
                        2 => format!("u8:{:x}:{:x}{:02x}", a, hi, val),
                        3 => format!("ioport:{:x}{:02x}:{:x}", hi, p, val),
                        4 => format!("ioport:{:x}:{:x}{:02x}", p, hi, val),
                        _ => format!("u8:{:x}{:06x}:{:x}", hi, a, val), // 25-28 bit address: not accessible
                    }
                } else {
                    junk(rng)
                };
                while !is_really_junk(&j) {
                    j = junk(rng);
                }
                Line::Junk(j)
            }
        };
        v.push(l);
    }
    v
}

/// sequential model of the control channel
#[derive(Default, Clone)]
pub struct Model {
    pub paused: bool,
    pub stopped: bool,
    pub mem: HashMap<u32, u8>,
    pub ddr: [u8; 11],
    pub latch: [u8; 11],
    pub ext: [u8; 11],
}
impl Model {
    pub fn apply(&mut self, l: &Line) {
        if self.stopped {
            return;
        }
        match l {
            Line::Pause => self.paused = true,
            Line::Start => self.paused = false,
            Line::Stop => self.stopped = true,
            Line::U8(a, v) => {
                if (0xfee000..=0xfee00a).contains(a) {
                    self.ddr[(*a - 0xfee000) as usize] = *v;
                } else if (0xffffd0..=0xffffda).contains(a) {
                    self.latch[(*a - 0xffffd0) as usize] = *v;
                } else if crate::refmodel::mem::locate(*a).is_some() {
                    self.mem.insert(*a, *v);
                }
            }
            Line::Port(p, v) => {
                if (1..=11).contains(p) {
                    self.ext[(*p - 1) as usize] = *v;
                }
            }
            Line::Junk(_) => {}
        }
    }
}

#[derive(Debug, Clone, PartialEq)]
pub struct Outcome {
    pub end: RunEnd,
    pub mem: Vec<(u32, u8)>,
    pub dr_reads: Vec<u8>,
    /// (port, value) of the ioport messages in order
    pub port_msgs: Vec<(String, String)>,
    pub other_msgs: Vec<String>,
}

/// Deliver `lines` to a running run() in the given batches (sizes), one batch per loop iteration
/// starting at iteration `first`, `gap` iterations apart. Returns the outcome and findings of the
/// pause monitor.
pub fn run_batched(lines: &[Line], batches: &[usize], gap: u64, case: u64) -> (Outcome, Vec<(String, String)>) {
    let mut rig = RunRig::new();
    // guest: BRA self
    real_poke(&mut rig.cpu, SPIN, 0x40);
    real_poke(&mut rig.cpu, SPIN + 1, 0xfe);
    rig.cpu.er[2] = SPIN;
    rig.cpu.er[7] = 0xffe000;
    rig.cpu.exit_addr = 0x00ff_fff0;
    struct St {
        tick: u64,
        next_batch: usize,
        pos: usize,
        model: Model,
        last_sum: usize,
        /// run state after the first p delivered lines: 0 running, 1 paused, 2 stopped
        after: Vec<u8>,
        /// iteration by which line j must have been handled (delivery + queue length + slack)
        deadline: Vec<u64>,
        /// which prefix lengths the emulator may have handled so far (in order, growing)
        feasible: Vec<bool>,
        findings: Vec<(String, String)>,
        done: bool,
        stop_tick: u64,
    }
    let st = shared(St { stop_tick: 0, tick: 0, next_batch: 0, pos: 0, model: Model::default(), last_sum: 0, after: vec![0], deadline: vec![], feasible: vec![true], findings: vec![], done: false });
    let s2 = st.clone();
    let tx = rig.to_emu.clone();
    let lines2: Vec<Line> = lines.to_vec();
    let batches2: Vec<usize> = batches.to_vec();
    let tick = Box::new(move |cpu: &mut Cpu| {
        let mut s = s2.borrow_mut();
        s.tick += 1;
        let sum = cpu.verif_state_sum();
        // (ii) while paused nothing executes, while running one instruction per iteration - judged
        // against every in-order prefix of the delivered lines the emulator may have handled by now:
        // the prefix only grows, never passes a stop, reaches every line within (lines queued ahead of
        // it + 4) iterations of its delivery, and its run state explains what the last iteration did
        if s.tick >= 2 && !s.done {
            let advanced = sum != s.last_sum;
            let hi = s.pos;
            let tick = s.tick;
            let lo = s.deadline.iter().take(hi).enumerate().filter(|(_, d)| **d < tick).map(|(j, _)| j + 1).max().unwrap_or(0);
            let minp = s.feasible.iter().position(|f| *f).unwrap_or(0);
            let mut next = vec![false; hi + 1];
            for pp in minp.max(lo)..=hi {
                if s.after[..pp].iter().any(|x| *x == 2) {
                    break; // cannot pass a stop
                }
                if (s.after[pp] == 0) == advanced && s.after[pp] != 2 {
                    next[pp] = true;
                }
            }
            if !next.iter().any(|f| *f) {
                let last = s.last_sum;
                let t = s.tick;
                s.findings.push((
                    if advanced { "executes-while-paused".into() } else { "not-running-after-start".into() },
                    format!("iteration {}: state count {} -> {}; no in-order prefix of the {} lines delivered so far (at least {} of them due by now) leaves the emulator {}", t, last, sum, hi, lo, if advanced { "running" } else { "paused" }),
                ));
                // go on from "anything is possible" so that one deviation is reported once
                next = (0..=hi).map(|pp| !s.after[..pp].iter().any(|x| *x == 2)).collect();
            }
            s.feasible = next;
        }
        s.last_sum = sum;
        if s.done {
            return;
        }
        let due = s.tick >= 3 && (s.tick - 3) % gap.max(1) == 0;
        if due && s.next_batch < batches2.len() {
            let n = batches2[s.next_batch];
            s.next_batch += 1;
            for _ in 0..n {
                let l = lines2[s.pos].clone();
                s.pos += 1;
                let _ = tx.send(l.text(case + s.pos as u64));
                s.model.apply(&l);
                let st_now = if s.model.stopped { 2 } else if s.model.paused { 1 } else { 0 };
                s.after.push(st_now);
                // lines still unhandled in the worst case: everything delivered and not yet due
                let t = s.tick;
                let ahead = s.deadline.iter().filter(|d| **d >= t).count() as u64;
                s.deadline.push(t + ahead + 1 + 4);
                s.feasible.push(false);
            }
        } else if s.next_batch >= batches2.len() && !s.model.stopped {
            // script exhausted without a stop: end the run
            let _ = tx.send("cmd:stop".to_string());
            s.model.stopped = true;
        }
        if s.model.stopped {
            s.done = true;
        }
        // a run that does not end although a stop was delivered long ago (every line is due within
        // lines-ahead + 4 iterations) is left by unwinding out of the hook - run() itself offers no other
        // way - and reported as "did not stop"
        if s.model.stopped {
            if s.stop_tick == 0 {
                s.stop_tick = s.tick;
            }
            if s.tick > s.stop_tick + s.pos as u64 + 3000 {
                std::panic::resume_unwind(Box::new("h8mon: run() did not end after cmd:stop"));
            }
        }
    });
    let end = run_with_hook(&mut rig.cpu, tick);
    let msgs = rig.drain();
    let mut port_msgs = vec![];
    let mut other = vec![];
    // only the port announcements are compared across partitions, without repetitions of the value
    // announced last for the port; other message kinds are not pinned by any property
    let mut last_announced: HashMap<String, String> = HashMap::new();
    for m in msgs {
        let f: Vec<&str> = m.split(':').collect();
        if f[0] == "ioport" && f.len() == 4 {
            let prev = last_announced.get(f[1]).cloned().unwrap_or_else(|| "0".to_string());
            if prev != f[2] {
                last_announced.insert(f[1].to_string(), f[2].to_string());
                port_msgs.push((f[1].to_string(), f[2].to_string()));
            }
        }
    }
    let _ = &mut other;
    // the last value announced for a port (0 if none) must be what the port drives at the end
    // (C16: "the last announced value always equals the current output"); only control lines change
    // the ports here, so the sequential model knows latch and direction exactly
    let mut final_announced = [0u8; 11];
    for (p, v) in &port_msgs {
        if let (Ok(p), Ok(v)) = (usize::from_str_radix(p, 16), u8::from_str_radix(v, 16)) {
            if (1..=11).contains(&p) {
                final_announced[p - 1] = v;
            }
        }
    }
    let s = st.borrow();
    let mut mem: Vec<(u32, u8)> = s.model.mem.keys().map(|a| (*a, real_peek(&rig.cpu, *a).unwrap_or(0))).collect();
    mem.sort_unstable();
    let dr_reads: Vec<u8> = (0..11).map(|p| rig.cpu.bus.read(0xffffd0 + p).unwrap_or(0)).collect();
    let mut findings = s.findings.clone();
    // (i)/(iii) against the sequential model: memory, port state, nothing after stop
    for (a, v) in &mem {
        if s.model.mem.get(a) != Some(v) {
            findings.push(("memory-differs-from-sequential-model".into(), format!("byte {:06x} is {:02x}, applying every line once in order (up to the stop) gives {:02x?}", a, v, s.model.mem.get(a))));
            break;
        }
    }
    // ports: only the latch-independent case is judged here (all bits inputs: DR shows the pins);
    // latch/direction semantics are C16's business, batching effects are caught by the
    // cross-partition comparison
    for p in 0..11 {
        if s.model.ddr[p] == 0 && dr_reads[p] != s.model.ext[p] {
            findings.push(("pins-differ-from-sequential-model".into(), format!("port {:x} (all inputs) DR reads {:02x}, the last ioport line that applies set the pins to {:02x}", p + 1, dr_reads[p], s.model.ext[p])));
            break;
        }
    }
    if end == RunEnd::Ok {
        for p in 0..11 {
            let driven = s.model.latch[p] & s.model.ddr[p];
            if final_announced[p] != driven {
                findings.push(("announced-output-differs-from-driven-output".into(), format!("port {:x}: last announced value {:02x}, the port drives {:02x} (latch {:02x}, direction {:02x}) after the last line", p + 1, final_announced[p], driven, s.model.latch[p], s.model.ddr[p])));
                break;
            }
        }
    }
    if end != RunEnd::Ok {
        findings.push(("run-did-not-stop-cleanly".into(), format!("run() ended with {:?}", end)));
    }
    (Outcome { end, mem, dr_reads, port_msgs, other_msgs: other }, findings)
}

fn partitions(n: usize, rng: &mut Rng, exhaustive: bool) -> Vec<Vec<usize>> {
    let mut out = vec![vec![n], vec![1; n]];
    if exhaustive && n <= 10 {
        // every composition of n
        for mask in 0..(1u32 << (n - 1)) {
            let mut parts = vec![];
            let mut cur = 1;
            for i in 0..(n - 1) {
                if mask & (1 << i) != 0 {
                    parts.push(cur);
                    cur = 1;
                } else {
                    cur += 1;
                }
            }
            parts.push(cur);
            out.push(parts);
        }
    } else {
        for _ in 0..6 {
            let mut parts = vec![];
            let mut left = n;
            while left > 0 {
                let cap = if rng.chance(1, 2) { 3 } else { left as u64 };
                let k = (1 + rng.below(cap) as usize).min(left);
                parts.push(k);
                left -= k;
            }
            out.push(parts);
        }
    }
    out
}

pub fn c18_case(rep: &mut Report, seed: u64, verbose: bool) -> bool {
    let mut rng = Rng::new(seed);
    let short = rng.chance(1, 2);
    let n = if short { 2 + rng.below(7) as usize } else { 10 + rng.below(60) as usize };
    let stop_inside = rng.chance(1, 3);
    let lines = gen_lines(&mut rng, n, stop_inside);
    let replay = format!("check=C18 kind=control seed={}", seed);
    let parts = partitions(n, &mut rng, short);
    let mut base: Option<(Outcome, Vec<usize>)> = None;
    let mut bad = false;
    let text: Vec<String> = lines.iter().enumerate().map(|(i, l)| l.text(seed + i as u64 + 1)).collect();
    for p in &parts {
        // batches back to back, or far enough apart that every line of a batch is due (handled) before
        // the next batch arrives - then the run state between two batches is fully determined
        let longest = p.iter().copied().max().unwrap_or(1) as u64;
        let gap = if rng.chance(2, 3) { 1 + rng.below(3) } else { longest + 6 + rng.below(4) };
        let (out, findings) = run_batched(&lines, p, gap, seed);
        rep.evaluations += 1;
        rep.count("lines_delivered", n as u64);
        let shape = if p.len() == 1 { 0 } else if p.iter().all(|x| *x == 1) { 1 } else { 2 };
        rep.cell("partition-shape", &[shape, p.len().min(12) as u64, n.min(20) as u64]);
        for (k, l) in lines.iter().enumerate() {
            let kind = match l {
                Line::Pause => 0,
                Line::Start => 1,
                Line::Stop => 2,
                Line::U8(a, _) => 3 + ((0xfee000..=0xfee00a).contains(a) || (0xffffd0..=0xffffda).contains(a)) as u64,
                Line::Port(..) => 5,
                Line::Junk(_) => 6,
            };
            // position of the line inside its batch: first / middle / last
            let mut acc = 0;
            let mut posk = 1;
            for b in p {
                if k < acc + b {
                    posk = if k == acc { 0 } else if k + 1 == acc + b { 2 } else { 1 };
                    break;
                }
                acc += b;
            }
            rep.cell("linekind-batchpos", &[kind, posk]);
        }
        for (a, t) in findings {
            bad = true;
            if verbose {
                println!("  FINDING {} (batches {:?}): {}", a, p, t);
            }
            rep.finding(&format!("control|{}", a), || format!("{}; lines {:?} delivered in batches {:?}", t, text, p), || replay.clone());
        }
        match &base {
            None => base = Some((out, p.clone())),
            Some((b, bp)) => {
                if *b != out {
                    bad = true;
                    let what = if b.port_msgs != out.port_msgs {
                        "ioport-messages"
                    } else if b.mem != out.mem {
                        "memory"
                    } else if b.dr_reads != out.dr_reads {
                        "port-state"
                    } else {
                        "end-or-other-messages"
                    };
                    if verbose {
                        println!("  FINDING batching-dependence ({}): batches {:?} vs {:?}", what, bp, p);
                    }
                    rep.finding(
                        &format!("control|batching-dependence.{}", what),
                        || format!("the same lines give different results when batched {:?} and {:?}: ioport messages {:?} vs {:?}; lines {:?}", bp, p, b.port_msgs, out.port_msgs, text),
                        || replay.clone(),
                    );
                }
            }
        }
    }
    rep.sample(|| format!("seed={} lines {:?} in {} partitions, e.g. {:?}", seed, text.iter().take(8).collect::<Vec<_>>(), parts.len(), parts.last()));
    bad
}

// ---------------------------------------------------------------------------------------------
// end-to-end over TCP against the release binary

fn e2e_guest(texts: &[Vec<u8>]) -> (Vec<u8>, u32, u32) {
    // prints every text (the first one from a buffer the driver pokes through u8: lines), writes
    // to ports, then spins until cmd:stop
    let mut a = Asm::new(BASE);
    a.label("start");
    for (i, _) in texts.iter().enumerate() {
        a.mov_l_imm(0, 104);
        a.mov_l_label(1, &format!("args{}", i));
        a.trapa(0);
        a.mov_b_imm(8, 0xff);
        a.mov_b_to_abs24(8, 0xfee000 + (i as u32 % 11));
        a.mov_b_imm(8, 0x10 + i as u8);
        a.mov_b_to_abs8(8, 0xd0 + (i as u8 % 11));
    }
    a.label("spin");
    a.bcc8(0, "spin");
    a.align(4);
    for (i, t) in texts.iter().enumerate() {
        a.label(&format!("args{}", i));
        a.l(1);
        a.l_label(&format!("text{}", i));
        a.l(t.len() as u32);
    }
    for (i, t) in texts.iter().enumerate() {
        a.label(&format!("text{}", i));
        a.bytes(t);
        a.align(2);
    }
    a.align(2);
    a.label("exit");
    a.w(0x5470);
    let (image, labels) = a.finish();
    (image, labels["exit"] - BASE, labels["text0"])
}

fn unescape(line: &[u8]) -> Vec<u8> {
    let mut out = vec![];
    let mut i = 0;
    while i < line.len() {
        if line[i] == b'\\' && i + 1 < line.len() {
            match line[i + 1] {
                b'\\' => out.push(b'\\'),
                b'n' => out.push(b'\n'),
                c => {
                    out.push(b'\\');
                    out.push(c);
                }
            }
            i += 2;
        } else {
            out.push(line[i]);
            i += 1;
        }
    }
    out
}

/// The messages the properties pin down, from a list of unescaped wire lines: `ready`, `stdout:`
/// and `ioport:` lines; message kinds the properties do not mention (and `sync:`, which depends on
/// pacing-independent totals checked by C13) are left out, and so are port announcements that repeat
/// the value announced last for the port (0 after reset) - C16 allows but does not require them.
fn pinned_messages(lines: &[Vec<u8>]) -> Vec<Vec<u8>> {
    let mut last = [0u32; 16];
    let mut out = vec![];
    for l in lines {
        if l == b"ready" || l.starts_with(b"stdout:") {
            out.push(l.clone());
        } else if l.starts_with(b"ioport:") {
            let f: Vec<&[u8]> = l.split(|b| *b == b':').collect();
            if f.len() >= 3 {
                let p = usize::from_str_radix(&String::from_utf8_lossy(f[1]), 16).unwrap_or(99);
                let v = u32::from_str_radix(&String::from_utf8_lossy(f[2]), 16).unwrap_or(0xffff);
                if p < 16 {
                    if last[p] == v {
                        continue;
                    }
                    last[p] = v;
                }
            }
            out.push(l.clone());
        }
    }
    out
}

pub fn e2e_session(rep: &mut Report, seed: u64, verbose: bool) -> bool {
    e2e_session_gap(rep, seed, verbose, 0)
}

/// `gap_ms` > 0: the connection stays silent for that long (wall clock) between the pokes and the
/// rest of the script - a long run of empty batches; everything sent afterwards must still be
/// acted on.
pub fn e2e_session_gap(rep: &mut Report, seed: u64, verbose: bool, gap_ms: u64) -> bool {
    let bin = &crate::runrig::real_binary();
    if !std::path::Path::new(bin).exists() {
        rep.inconclusive.push("real release binary not built".into());
        return false;
    }
    let mut rng = Rng::new(seed);
    let replay = format!("check=C18 kind=e2e seed={} gap={}", seed, gap_ms);
    let poked: Vec<u8> = "poke \\ me\n\u{3042}!".as_bytes().to_vec();
    let mut texts: Vec<Vec<u8>> = vec![vec![b'?'; poked.len()]];
    let extra = ["line1\nline2\n", "back\\slash \\n literal", "\u{1F600} multi \u{e9}\u{3042}", "", "tail\\", "\n\n", "a:b:c"];
    for _ in 0..(2 + rng.below(5)) {
        texts.push(rng.pick(&extra).as_bytes().to_vec());
    }
    let (image, exit_vaddr, text0) = e2e_guest(&texts);
    let elf = simple_elf(&image, 16, exit_vaddr, 0x400, seed);
    let path = scratch_path(&format!("c18-{}.elf", seed));
    std::fs::write(&path, &elf).expect("write elf");
    // a free port
    let port = match std::net::TcpListener::bind("127.0.0.1:0") {
        Ok(l) => l.local_addr().map(|a| a.port()).unwrap_or(0),
        Err(_) => 0,
    };
    if port == 0 {
        rep.inconclusive.push("no free TCP port".into());
        return false;
    }
    let child = std::process::Command::new(bin).args(["-e", &path, "-s", "-w", "-p", &port.to_string(), "--log", "off"]).stdout(std::process::Stdio::null()).stderr(std::process::Stdio::null()).spawn();
    let Ok(mut child) = child else {
        rep.inconclusive.push("could not start the release binary".into());
        return false;
    };
    let mut stream = None;
    for _ in 0..200 {
        match std::net::TcpStream::connect(("127.0.0.1", port)) {
            Ok(s) => {
                stream = Some(s);
                break;
            }
            Err(_) => std::thread::sleep(std::time::Duration::from_millis(10)),
        }
    }
    let Some(mut stream) = stream else {
        let _ = child.kill();
        let _ = child.wait();
        rep.inconclusive.push("could not connect to the release binary".into());
        return false;
    };
    let _ = stream.set_read_timeout(Some(std::time::Duration::from_millis(50)));
    let _ = stream.set_nodelay(true);
    // ---- script: junk, pokes of the first text (each byte written several times, last wins), start
    let mut script: Vec<String> = vec![];
    for (i, b) in poked.iter().enumerate() {
        for _k in 0..(1 + rng.below(3)) {
            if rng.chance(1, 3) {
                let mut j = junk(&mut rng);
                while !is_really_junk(&j) || j.contains('\n') {
                    j = junk(&mut rng);
                }
                script.push(j);
            }
            script.push(format!("u8:{:x}:{:x}", text0 + i as u32, b ^ 0x5a));
        }
        script.push(format!("u8:{:x}:{:x}", text0 + i as u32, b));
    }
    // with an idle gap: the last byte of the text is poked only after the silence
    let mut late: Vec<String> = vec![];
    if gap_ms > 0 {
        let i = poked.len() - 1;
        script.push(format!("u8:{:x}:{:x}", text0 + i as u32, poked[i] ^ 0x77));
        late.push(format!("u8:{:x}:{:x}", text0 + i as u32, poked[i]));
    }
    let split_at = script.len();
    script.extend(late);
    // over-long junk lines whose tail, cut at a typical buffer size, would read as a well-formed poke
    // of the text (or as a stop command): one line is one message, however long
    if !poked.is_empty() {
        for _ in 0..(2 + rng.below(4)) {
            let cut = *rng.pick(&[255usize, 256, 512, 1023, 1024, 2048, 4095, 4096, 4097, 8192, 16384, 65536]);
            let i = rng.below(poked.len() as u64) as usize;
            let tail = if rng.chance(1, 4) { "cmd:stop".to_string() } else { format!("u8:{:x}:{:x}", text0 + i as u32, poked[i] ^ 0x33) };
            script.push(format!("{}{}", "#".repeat(cut), tail));
        }
    }
    script.push("cmd:pause".into());
    script.push("cmd:start".into());
    let mode = rng.below(4);
    let (script_a, script_b): (Vec<String>, Vec<String>) = if gap_ms > 0 { (script[..split_at].to_vec(), script[split_at..].to_vec()) } else { (script.clone(), vec![]) };
    let payload: Vec<u8> = script_a.iter().flat_map(|l| l.bytes().chain(std::iter::once(b'\n'))).collect();
    let payload_b: Vec<u8> = script_b.iter().flat_map(|l| l.bytes().chain(std::iter::once(b'\n'))).collect();
    let mut transcript: Vec<u8> = vec![];
    let mut pump = |stream: &mut std::net::TcpStream, transcript: &mut Vec<u8>| {
        let mut buf = [0u8; 4096];
        loop {
            match stream.read(&mut buf) {
                Ok(0) => break,
                Ok(n) => transcript.extend_from_slice(&buf[..n]),
                Err(_) => break,
            }
        }
    };
    match mode {
        0 => {
            let _ = stream.write_all(&payload);
        }
        1 => {
            for b in &payload {
                let _ = stream.write_all(&[*b]);
            }
        }
        2 => {
            // lines split mid-way with delays
            let mut i = 0;
            // about 60 pauses over the whole payload (each costs a read time-out)
            let pause_every = (payload.len() as u64 / 4 / 60).max(6);
            while i < payload.len() {
                let n = (1 + rng.below(7) as usize).min(payload.len() - i);
                let _ = stream.write_all(&payload[i..i + n]);
                i += n;
                if rng.chance(1, pause_every) {
                    std::thread::sleep(std::time::Duration::from_millis(rng.below(4)));
                    pump(&mut stream, &mut transcript);
                }
            }
        }
        _ => {
            for l in &script_a {
                let _ = stream.write_all(l.as_bytes());
                let _ = stream.write_all(b"\n");
                if rng.chance(1, 4) {
                    std::thread::sleep(std::time::Duration::from_millis(1));
                }
            }
        }
    }
    let _ = stream.flush();
    if gap_ms > 0 {
        std::thread::sleep(std::time::Duration::from_millis(gap_ms));
        let _ = stream.write_all(&payload_b);
        let _ = stream.flush();
        rep.cell("idle-gap-seconds", &[gap_ms / 1000]);
    }
    // ---- expected messages
    let mut expected: Vec<Vec<u8>> = vec![b"ready".to_vec()];
    for (i, t) in texts.iter().enumerate() {
        let t = if i == 0 { &poked } else { t };
        let mut m = b"stdout:".to_vec();
        m.extend_from_slice(t);
        expected.push(m);
        expected.push(format!("ioport:{:x}:0:", 1 + i % 11).into_bytes());
        expected.push(format!("ioport:{:x}:{:x}:", 1 + i % 11, 0x10 + i).into_bytes());
    }
    // wait (bounded) until that many non-sync lines arrived
    let deadline = std::time::Instant::now() + std::time::Duration::from_secs(20);
    let expected = pinned_messages(&expected);
    let count_lines = |t: &Vec<u8>| {
        let ls: Vec<Vec<u8>> = t.split(|b| *b == b'\n').filter(|l| !l.is_empty()).map(|l| unescape(l)).collect();
        pinned_messages(&ls).len()
    };
    while count_lines(&transcript) < expected.len() && std::time::Instant::now() < deadline {
        pump(&mut stream, &mut transcript);
    }
    // the emulator ending on its own before the guest finished and before any stop command was sent
    let ended_early = count_lines(&transcript) < expected.len() && transcript.starts_with(b"ready\n") && matches!(child.try_wait(), Ok(Some(_)));
    let mut had_to_be_killed = false;
    let _ = stream.write_all(b"cmd:stop\n");
    let _ = stream.flush();
    let t_end = std::time::Instant::now() + std::time::Duration::from_secs(5);
    loop {
        pump(&mut stream, &mut transcript);
        match child.try_wait() {
            Ok(Some(_)) => break,
            _ if std::time::Instant::now() > t_end => {
                let _ = child.kill();
                had_to_be_killed = true;
                break;
            }
            _ => {}
        }
    }
    let _ = child.wait();
    pump(&mut stream, &mut transcript);
    let _ = std::fs::remove_file(&path);
    rep.evaluations += 1;
    rep.cell("chunking-mode", &[mode]);
    if ended_early {
        rep.finding(
            "e2e|ended-without-stop-command",
            || format!("the emulator process ended after {} of {} expected messages although no stop command had been sent (chunking mode {}, seed {})", count_lines(&transcript), expected.len(), mode, seed),
            || replay.clone(),
        );
        return true;
    }
    if count_lines(&transcript) < expected.len() {
        rep.count("e2e_timeouts_inconclusive", 1);
        if verbose {
            println!("  e2e timeout: {} lines received, {} expected", count_lines(&transcript), expected.len());
        }
        // a silent time-out is inconclusive, not a violation - unless the identical session without
        // the idle period completes right afterwards (control run: same binary, same script, same
        // machine load), which leaves the silence on the connection as the only difference
        if gap_ms > 0 {
            let mut control = Report::new("C18");
            let cbad = e2e_session_gap(&mut control, seed, false, 0);
            if !cbad && control.inconclusive.is_empty() && control.findings.is_empty() {
                rep.finding(
                    "e2e|no-reaction-after-idle-period",
                    || format!("after {} ms without traffic on the control connection the lines sent next were not acted on within 20 s ({} of {} expected messages arrived); the identical session without the idle period completed (seed {})", gap_ms, count_lines(&transcript), expected.len(), seed),
                    || replay.clone(),
                );
                return true;
            }
        }
        let ready = transcript.starts_with(b"ready\n");
        rep.inconclusive.push(format!("end-to-end session seed {} timed out waiting for the emulator's messages{}{}", seed, if ready { " [ready received]" } else { "" }, if had_to_be_killed { " [cmd:stop ignored]" } else { "" }));
        return false;
    }
    // ---- offline transcript check
    let mut bad = false;
    let raw: Vec<&[u8]> = transcript.split(|b| *b == b'\n').collect();
    let lines: Vec<Vec<u8>> = raw[..raw.len().saturating_sub(1)].iter().map(|l| l.to_vec()).collect();
    if !transcript.is_empty() && *transcript.last().unwrap() != b'\n' {
        bad = true;
        rep.finding("e2e|unterminated-line", || format!("the transcript does not end with a newline (seed {})", seed), || replay.clone());
    }
    let got: Vec<Vec<u8>> = pinned_messages(&lines.iter().map(|l| unescape(l)).collect::<Vec<_>>());
    rep.count("e2e_messages_checked", got.len() as u64);
    for (i, want) in expected.iter().enumerate() {
        let ok = match got.get(i) {
            Some(g) if want.ends_with(b":") && want.starts_with(b"ioport") => g.starts_with(want) && g[want.len()..].iter().all(|c| c.is_ascii_digit()),
            Some(g) => g == want,
            None => false,
        };
        for c in want.iter() {
            if *c == b'\\' {
                rep.cell("escape-class", &[1]);
            } else if *c == b'\n' {
                rep.cell("escape-class", &[2]);
            } else if *c >= 0x80 {
                rep.cell("escape-class", &[3]);
            }
        }
        if !ok {
            bad = true;
            let what = if i == 1 { "poked-text-or-framing" } else { "framing" };
            rep.finding(
                &format!("e2e|{}", what),
                || format!("message {} on the wire unescapes to {:?}, expected {:?} (chunking mode {}, seed {})", i, got.get(i).map(|g| String::from_utf8_lossy(g).to_string()), String::from_utf8_lossy(want), mode, seed),
                || replay.clone(),
            );
            break;
        }
    }
    if got.len() > expected.len() {
        bad = true;
        rep.finding("e2e|extra-messages", || format!("{} messages received, {} expected; first extra {:?} (seed {})", got.len(), expected.len(), String::from_utf8_lossy(&got[expected.len()]), seed), || replay.clone());
    }
    if verbose {
        println!("  e2e mode {}: {} wire lines, {} expected messages, ok={}", mode, lines.len(), expected.len(), !bad);
    }
    rep.sample(|| format!("e2e seed={} chunking mode {}: {} script lines, {} wire lines, first {:?}", seed, mode, script.len(), lines.len(), lines.iter().take(3).map(|l| String::from_utf8_lossy(l).to_string()).collect::<Vec<_>>()));
    bad
}

pub fn c18(rep: &mut Report, cfg: &Cfg) {
    let mut rng = cfg.rng("C18");
    let n = cfg.share(cfg.n(80, 16_000)).max(2);
    for _ in 0..n {
        let seed = rng.next();
        c18_case(rep, seed, false);
    }
    // a session that times out (host overloaded, port taken between probe and bind, ...) is repeated
    // up to twice before it counts as inconclusive
    fn with_retries(rep: &mut Report, seed: u64, gap_ms: u64) {
        let mut dead = 0;
        for attempt in 0..3 {
            let n0 = rep.inconclusive.len();
            e2e_session_gap(rep, seed.wrapping_add(attempt), false, gap_ms);
            if rep.inconclusive.len() > n0 {
                let m = rep.inconclusive.last().cloned().unwrap_or_default();
                if m.contains("[ready received]") && m.contains("[cmd:stop ignored]") {
                    dead += 1;
                }
                if attempt < 2 {
                    rep.inconclusive.truncate(n0);
                    rep.count("e2e_sessions_repeated_after_time_out", 1);
                    continue;
                }
                // three sessions in a row in which the emulator announced itself on the connection and
                // then reacted to nothing for 20 s, not even to the final cmd:stop (5 s more): the
                // control lines do not reach the run loop over TCP
                if dead == 3 {
                    rep.inconclusive.truncate(n0);
                    rep.finding("e2e|no-reaction-to-any-line", || format!("three TCP sessions in a row (seeds {}..{}): `ready` arrived, then no reaction to any line within 20 s and none to cmd:stop within 5 s more (the process had to be killed)", seed, seed.wrapping_add(2)), || format!("check=C18 kind=e2e seed={} gap={}", seed, gap_ms));
                }
            }
            break;
        }
    }
    let ne2e = cfg.n(2, 24);
    for _ in 0..ne2e {
        with_retries(rep, rng.next(), 0);
    }
    // idle connection (wall clock): one session per shard with a silent period before the rest of the
    // script; the shards run side by side, so the longest gap bounds the added time
    let gaps: &[u64] = if cfg.tier_thorough { &[1, 3, 6, 11, 16, 21, 31, 46, 61, 91, 121, 2, 4, 8, 13, 35] } else { &[1, 2, 3, 4, 5, 6, 7, 8, 9, 10, 11, 12, 1, 2, 3, 4] };
    let gap = gaps[(cfg.shard as usize) % gaps.len()];
    with_retries(rep, rng.next(), gap * 1000 + 300);
    rep.notes.push("C18: in-process run() on a spinning guest with the channel-backed socket; the per-iteration hook delivers a generated line sequence (cmd:pause/start/stop, u8 stores to memory and port registers, ioport pin changes, ~45 kinds of malformed lines) under every partition into polling batches for short sequences (all compositions) and seeded partitions otherwise; judged against a sequential model (memory, port state, nothing applied after stop), run/pause behaviour iteration by iteration against every in-order prefix of the delivered lines the emulator may have handled so far (the prefix grows, never passes a stop, reaches every line within lines-queued-ahead + 4 iterations), and all partitions must give identical ioport message sequences and final state. Junk includes numbers that overflow their field with a valid command in the low bits. End-to-end: the release binary with -s -w over real TCP, script sent in one write / byte by byte / split mid-line with delays / line by line; the ready / stdout / ioport lines of the wire transcript (other kinds and repeated port announcements left out) must unescape to exactly the expected messages in order (texts with newline, backslash, multi-byte UTF-8; one text poked through u8 lines with overwrites); over-long junk lines whose tail reads as a command; idle periods on the connection (1-12 s quick, 1-121 s thorough) with a control run of the same session without the gap deciding between time-out and no reaction. Other time-outs are inconclusive. Cells: (partition shape, #batches, #lines), (line kind, position in batch), chunking modes, escape classes.".into());
}

pub fn replay(line: &str) -> (bool, String) {
    let seed: u64 = line.split_whitespace().find_map(|t| t.strip_prefix("seed=")).and_then(|v| v.parse().ok()).unwrap_or(0);
    let mut rep = Report::new("C18");
    let gap: u64 = line.split_whitespace().find_map(|t| t.strip_prefix("gap=")).and_then(|v| v.parse().ok()).unwrap_or(0);
    let bad = if line.contains("kind=e2e") { e2e_session_gap(&mut rep, seed, true, gap) } else { c18_case(&mut rep, seed, true) };
    let mut out = String::new();
    for f in rep.findings.values() {
        out.push_str(&format!("  FINDING {}: {}\n", f.sig, f.detail));
    }
    (bad, out)
}
