//! Lock-step step monitor: the real `Cpu` and the reference model execute the same prepared
//! instruction; everything observable is compared (DESIGN.md 2.4).

use crate::cpu::Cpu;
use crate::refmodel::cost::{self, BusRegs};
use crate::refmodel::exec::{self, Outcome, Regs, Step};
use crate::refmodel::mem::{locate, Mem, REGIONS};
use crate::util::{take_panic, PanicInfo};
use std::panic::{catch_unwind, AssertUnwindSafe};

#[derive(Clone, Debug, Default)]
pub struct Case {
    pub pc: u32,
    pub code: Vec<u8>,
    pub er: [u32; 8],
    pub ccr: u8,
    /// memory bytes set before the step (operands, frames, vectors, bus-controller registers)
    pub patches: Vec<(u32, u8)>,
    /// interrupt requests sitting in the controller's queue while the instruction executes
    /// (an instruction step must neither consume nor reorder them)
    pub pending: Vec<u8>,
}

impl Case {
    pub fn words(pc: u32, words: &[u16]) -> Case {
        let mut code = Vec::with_capacity(words.len() * 2);
        for w in words {
            code.push((w >> 8) as u8);
            code.push(*w as u8);
        }
        Case { pc, code, er: [0; 8], ccr: 0, patches: vec![], pending: vec![] }
    }
    pub fn patch16(&mut self, a: u32, v: u16) {
        self.patches.push((a, (v >> 8) as u8));
        self.patches.push((a + 1, v as u8));
    }
    pub fn patch32(&mut self, a: u32, v: u32) {
        for i in 0..4 {
            self.patches.push((a + i, (v >> (8 * (3 - i))) as u8));
        }
    }
    pub fn bus(&mut self, b: &BusRegs) {
        self.patches.push((cost::ABWCR, b.abwcr));
        self.patches.push((cost::ASTCR, b.astcr));
        self.patches.push((cost::WCRH, b.wcrh));
        self.patches.push((cost::WCRL, b.wcrl));
        self.patches.push((cost::DRCRA, b.drcra));
    }
    /// one-line, exactly re-parsable description (replay files)
    pub fn to_line(&self) -> String {
        let code: String = self.code.iter().map(|b| format!("{:02x}", b)).collect();
        let er: Vec<String> = self.er.iter().map(|r| format!("{:08x}", r)).collect();
        let p: Vec<String> = self.patches.iter().map(|(a, v)| format!("{:06x}:{:02x}", a, v)).collect();
        let q: Vec<String> = self.pending.iter().map(|v| v.to_string()).collect();
        format!("pc={:06x} code={} er={} ccr={:02x} patches={}{}", self.pc, code, er.join(","), self.ccr, if p.is_empty() { "-".to_string() } else { p.join(",") }, if q.is_empty() { String::new() } else { format!(" pend={}", q.join(",")) })
    }
    pub fn from_line(s: &str) -> Option<Case> {
        let mut c = Case::default();
        for tok in s.split_whitespace() {
            let (k, v) = tok.split_once('=')?;
            match k {
                "pc" => c.pc = u32::from_str_radix(v, 16).ok()?,
                "code" => {
                    c.code = (0..v.len() / 2).map(|i| u8::from_str_radix(&v[2 * i..2 * i + 2], 16).unwrap_or(0)).collect();
                }
                "er" => {
                    for (i, x) in v.split(',').enumerate().take(8) {
                        c.er[i] = u32::from_str_radix(x, 16).ok()?;
                    }
                }
                "ccr" => c.ccr = u8::from_str_radix(v, 16).ok()?,
                "pend" => c.pending = v.split(',').filter_map(|x| x.parse().ok()).collect(),
                "patches" => {
                    if v != "-" {
                        for p in v.split(',') {
                            let (a, b) = p.split_once(':')?;
                            c.patches.push((u32::from_str_radix(a, 16).ok()?, u8::from_str_radix(b, 16).ok()?));
                        }
                    }
                }
                _ => {}
            }
        }
        Some(c)
    }
}

#[derive(Clone, Debug)]
pub enum RealOutcome {
    Ok(u8),
    Err(String),
    Panic(PanicInfo),
}

#[derive(Clone, Debug, PartialEq, Eq)]
pub enum Diff {
    /// reference says Ok, real returned Err
    RealErr(String),
    /// reference says the step must fail, real returned Ok
    RealOk,
    Reg { i: u8, real: u32, model: u32 },
    Ccr { real: u8, model: u8, mask: u8 },
    Pc { real: u32, model: u32 },
    Mem { addr: u32, real: u8, model: u8 },
    Cost { real: u32, model: u32 },
    /// the pending-request queue after an instruction step differs from before it
    Queue { real: Vec<u8>, want: Vec<u8> },
}

impl Diff {
    /// the "aspect" part of a finding signature
    pub fn aspect(&self, st: &Step) -> String {
        match self {
            Diff::RealErr(_) => "outcome.err-instead-of-ok".into(),
            Diff::RealOk => "outcome.ok-instead-of-err".into(),
            Diff::Reg { i, .. } => {
                let role = reg_role(st, *i);
                format!("reg.{}", role)
            }
            Diff::Ccr { real, model, mask } => {
                let d = (real ^ model) & mask;
                let names = ["C", "V", "Z", "N", "U", "H", "UI", "I"];
                let mut s = String::from("ccr.");
                for b in 0..8 {
                    if d & (1 << b) != 0 {
                        s.push_str(names[b]);
                    }
                }
                s
            }
            Diff::Pc { .. } => "pc".into(),
            Diff::Mem { addr, .. } => match st.ea {
                Some(ea) if *addr >= ea.wrapping_sub(0) && *addr < ea + 4 => "mem.operand".into(),
                _ => "mem.other".into(),
            },
            Diff::Cost { .. } => "cost".into(),
            Diff::Queue { .. } => "pending-queue".into(),
        }
    }
}

fn reg_role(st: &Step, i: u8) -> &'static str {
    use crate::refmodel::decode::Opd;
    let is = |o: &Opd| match o {
        Opd::R(f) => (f & 7) == i,
        Opd::Ind(n) | Opd::D16(n, _) | Opd::D24(n, _) | Opd::PostInc(n) | Opd::PreDec(n) => *n == i,
        _ => false,
    };
    if is(&st.insn.dst) {
        if matches!(st.insn.dst, Opd::R(_)) {
            "dst"
        } else {
            "addr"
        }
    } else if is(&st.insn.src) {
        if matches!(st.insn.src, Opd::R(_)) {
            "src"
        } else {
            "addr"
        }
    } else if i == 7 {
        "sp"
    } else {
        "other"
    }
}

#[derive(Clone, Copy, Debug, PartialEq, Eq)]
pub enum Action {
    /// one instruction at the current PC
    Step,
    /// request interrupt `v` at the interrupt controller and let the CPU accept it
    Interrupt(u8),
}

pub struct Obs {
    pub step: Step,
    pub real: RealOutcome,
    pub diffs: Vec<Diff>,
    /// reference regs after the step (valid for Outcome::Ok)
    pub model_after: Regs,
    pub real_after: Regs,
    pub cost_model: Option<u32>,
    /// memory writes of the reference: (addr, new value)
    pub model_writes: Vec<(u32, u8)>,
    /// bytes of the real machine that changed inside the compared windows: (addr, old, new)
    pub real_changes: Vec<(u32, u8, u8)>,
}

pub struct Lock {
    pub cpu: Cpu,
    pub mem: Mem,
    /// run a full five-region compare every this many cases
    pub full_every: u32,
    since_full: u32,
    cases: u64,
    ring: Vec<(Case, Action)>,
    pub full_compares: u64,
    /// unlocated or located stray writes found by the full compare: (case line, addr, real, model)
    pub strays: Vec<(Option<Case>, u32, u8, u8, bool)>,
    /// compare/cost options
    pub judge_cost: bool,
    /// extra window (bytes on each side of every touched address) compared after every step
    pub window: u32,
}

/// Fill every I/O register location that this emulator keeps as plain storage (see gen::io_noise)
/// with a pattern, on the real machine and in the mirror: 0 = zeros (power-on), 1 = all ones,
/// otherwise pseudo-random bytes. Background configuration for the cases that follow.
pub fn io_background(cpu: &mut Cpu, mem: &mut Mem, pattern: u64) {
    for a in (0xfee000u32..=0xfee0ff).chain(0xffff20..=0xffffe9) {
        if crate::refmodel::mem::is_special_io(a) || (0xfee020..=0xfee026).contains(&a) {
            continue;
        }
        let v = match pattern % 4 {
            0 => 0,
            1 => 0xff,
            _ => {
                let mut x = (a as u64 ^ pattern.wrapping_mul(0x9e3779b97f4a7c15)).wrapping_mul(0xbf58476d1ce4e5b9);
                x ^= x >> 29;
                (x >> 8) as u8
            }
        };
        mem.poke(a, v);
        real_poke(cpu, a, v);
    }
}

pub fn real_peek(cpu: &Cpu, addr: u32) -> Option<u8> {
    match locate(addr)? {
        (0, o) => cpu.bus.exception_handling_vector.get(o).copied(),
        (1, o) => cpu.bus.dram.get(o).copied(),
        (2, o) => cpu.bus.io_registrs1.get(o).copied(),
        (3, o) => cpu.bus.memory.get(o).copied(),
        (4, o) => cpu.bus.io_registrs2.get(o).copied(),
        _ => None,
    }
}
thread_local! {
    static WRITE_PANICS: std::cell::RefCell<Vec<(u32, crate::util::PanicInfo)>> = std::cell::RefCell::new(vec![]);
}
pub fn take_write_panics() -> Vec<(u32, crate::util::PanicInfo)> {
    WRITE_PANICS.with(|w| std::mem::take(&mut *w.borrow_mut()))
}

pub fn real_poke(cpu: &mut Cpu, addr: u32, v: u8) {
    // Through the emulator's own write path wherever that has no side effect the properties speak
    // of (memory, vector area, plain I/O register locations): an implementation may keep caches -
    // decoded instructions, per-area cost tables - that only its write path keeps coherent, and a
    // monitor that wrote behind its back would then see stale behaviour that no guest could cause.
    // Port DDR/DR and the timer block are written directly (their write path announces, latches,
    // reconfigures - the checks that want that call Bus::write themselves).
    if !crate::refmodel::mem::is_special_io(addr) && locate(addr).is_some() {
        match catch_unwind(AssertUnwindSafe(|| cpu.bus.write(addr, v).is_ok())) {
            Ok(true) => return,
            Ok(false) => {}
            Err(_) => {
                // remembered (once per location) and reported by main as a finding of the running check
                if let Some(p) = take_panic() {
                    WRITE_PANICS.with(|w| {
                        let mut w = w.borrow_mut();
                        if w.len() < 16 && !w.iter().any(|(a, _)| *a == addr) {
                            w.push((addr, p));
                        }
                    });
                }
            }
        }
    }
    let slot = match locate(addr) {
        Some((0, o)) => cpu.bus.exception_handling_vector.get_mut(o),
        Some((1, o)) => cpu.bus.dram.get_mut(o),
        Some((2, o)) => cpu.bus.io_registrs1.get_mut(o),
        Some((3, o)) => cpu.bus.memory.get_mut(o),
        Some((4, o)) => cpu.bus.io_registrs2.get_mut(o),
        _ => None,
    };
    if let Some(s) = slot {
        *s = v;
    }
}
fn real_region(cpu: &Cpu, i: usize) -> &[u8] {
    match i {
        0 => &cpu.bus.exception_handling_vector[..],
        1 => &cpu.bus.dram[..],
        2 => &cpu.bus.io_registrs1[..],
        3 => &cpu.bus.memory[..],
        _ => &cpu.bus.io_registrs2[..],
    }
}
fn real_region_mut(cpu: &mut Cpu, i: usize) -> &mut [u8] {
    match i {
        0 => &mut cpu.bus.exception_handling_vector[..],
        1 => &mut cpu.bus.dram[..],
        2 => &mut cpu.bus.io_registrs1[..],
        3 => &mut cpu.bus.memory[..],
        _ => &mut cpu.bus.io_registrs2[..],
    }
}

pub fn real_regs(cpu: &Cpu) -> Regs {
    Regs { er: cpu.er, ccr: cpu.verif_ccr(), pc: cpu.verif_pc() }
}
pub fn set_real_regs(cpu: &mut Cpu, r: &Regs) {
    cpu.er = r.er;
    cpu.verif_set_ccr(r.ccr);
    cpu.verif_set_pc(r.pc);
}

pub fn real_step(cpu: &mut Cpu) -> RealOutcome {
    let r = catch_unwind(AssertUnwindSafe(|| cpu.verif_step()));
    match r {
        Ok(Ok(s)) => RealOutcome::Ok(s),
        Ok(Err(e)) => RealOutcome::Err(format!("{}", e)),
        Err(_) => RealOutcome::Panic(take_panic().unwrap_or_default()),
    }
}

/// Interrupt acceptance on the real machine: request at the controller, then the acceptance
/// point the run loop uses. Ok(1) = accepted (queue drained), Ok(0) = left pending.
pub fn real_interrupt(cpu: &mut Cpu, v: u8) -> RealOutcome {
    let r = catch_unwind(AssertUnwindSafe(|| {
        cpu.verif_request_interrupt(v);
        let r = cpu.verif_try_interrupt();
        let left = cpu.verif_pending().len();
        cpu.verif_clear_pending();
        r.map(|_| if left == 0 { 1u8 } else { 0u8 })
    }));
    match r {
        Ok(Ok(s)) => RealOutcome::Ok(s),
        Ok(Err(e)) => RealOutcome::Err(format!("{}", e)),
        Err(_) => RealOutcome::Panic(take_panic().unwrap_or_default()),
    }
}

/// Reference: an interrupt is accepted only while I is clear; acceptance = exception entry.
pub fn model_interrupt(r: &mut Regs, mem: &mut Mem, v: u8) -> Step {
    use crate::refmodel::decode::Insn;
    use crate::refmodel::exec::{exception_entry, Cycles, I, UI};
    let mut st = Step { insn: Insn::undef(), outcome: Outcome::Unjudged("?"), ccr_unjudged: 0, mem_unjudged: vec![], ea: None, reg_unjudged: 0, overlap: false, odd_pc: false, label: Some("interrupt entry") };
    if r.ccr & I != 0 {
        // masked: nothing may change (the request stays pending)
        st.outcome = Outcome::Ok(Cycles::default());
        return st;
    }
    if r.er[7] & 1 != 0 || r.pc & 1 != 0 {
        st.outcome = Outcome::Unjudged("odd sp/pc");
        return st;
    }
    let sp4 = r.er[7].wrapping_sub(4) & 0xff_ffff;
    if sp4 < 0x104 {
        st.outcome = Outcome::Unjudged("stack overlaps vector table");
        return st;
    }
    st.ea = Some(sp4);
    if exception_entry(r, mem, v as u32) {
        st.ccr_unjudged = UI;
        st.outcome = Outcome::Ok(Cycles::default());
    } else {
        st.outcome = Outcome::Err("frame or vector outside mapped memory");
    }
    st
}

pub fn bus_regs(mem: &Mem) -> BusRegs {
    BusRegs {
        abwcr: mem.peek(cost::ABWCR).unwrap_or(0),
        astcr: mem.peek(cost::ASTCR).unwrap_or(0),
        wcrh: mem.peek(cost::WCRH).unwrap_or(0),
        wcrl: mem.peek(cost::WCRL).unwrap_or(0),
        drcra: mem.peek(cost::DRCRA).unwrap_or(0),
    }
}

/// Background pattern: two independent byte hashes of the address (pass 0 / pass 1), so that the
/// value loaded identifies the location read (C08).
#[inline]
pub fn tag(addr: u32, pass: u32) -> u8 {
    let mut x = addr.wrapping_mul(0x9e37_79b1) ^ (pass.wrapping_mul(0x85eb_ca6b));
    x ^= x >> 15;
    x = x.wrapping_mul(0x2c1b_3c6d);
    x ^= x >> 12;
    x as u8
}

impl Lock {
    /// `pass`: None = zero-filled memory, Some(p) = address-tagged background (all regions except
    /// the I/O register blocks, which stay zero).
    pub fn new(pass: Option<u32>) -> Lock {
        let mut l = Lock {
            cpu: Cpu::new(),
            mem: Mem::new(),
            full_every: 1024,
            since_full: 0,
            cases: 0,
            ring: vec![],
            full_compares: 0,
            strays: vec![],
            judge_cost: false,
            window: 8,
        };
        // under Miri the 2 x 2 MiB tagging loops would dominate the run: keep memory zero-filled
        let pass = if cfg!(miri) { None } else { pass };
        // the mirror starts from whatever a fresh machine holds (its initial memory contents are not
        // pinned by any property); the I/O blocks always, the memories unless they are tagged below
        for ri in 0..5 {
            let src = real_region(&l.cpu, ri).to_vec();
            let m = src.len().min(l.mem.r[ri].len());
            l.mem.r[ri][..m].copy_from_slice(&src[..m]);
        }
        if let Some(p) = pass {
            for (ri, (lo, _hi, name)) in REGIONS.iter().enumerate() {
                if name.starts_with("io") {
                    continue;
                }
                let n = l.mem.r[ri].len();
                for o in 0..n {
                    l.mem.r[ri][o] = tag(lo + o as u32, p);
                }
                let src = l.mem.r[ri].clone();
                let dst = real_region_mut(&mut l.cpu, ri);
                let m = dst.len().min(src.len());
                dst[..m].copy_from_slice(&src[..m]);
            }
        }
        l
    }

    fn setup(&mut self, c: &Case) {
        self.mem.wlog.clear();
        for (i, b) in c.code.iter().enumerate() {
            let a = (c.pc & !1).wrapping_add(i as u32);
            if self.mem.write8(a, *b) {
                real_poke(&mut self.cpu, a, *b);
            }
        }
        for (a, v) in &c.patches {
            if self.mem.write8(*a, *v) {
                real_poke(&mut self.cpu, *a, *v);
            }
        }
        self.cpu.er = c.er;
        self.cpu.verif_set_ccr(c.ccr);
        self.cpu.verif_set_pc(c.pc);
        self.cpu.verif_clear_pending();
        if let Some(_) = c.pending.first() {
            for v in &c.pending {
                self.cpu.verif_request_interrupt(*v);
            }
        }
    }

    /// Execute one case on both machines and compare. The memories of both are returned to the
    /// baseline afterwards.
    pub fn run(&mut self, c: &Case) -> Obs {
        self.run_action(c, Action::Step)
    }

    pub fn run_action(&mut self, c: &Case, action: Action) -> Obs {
        // the background contents of the plain I/O register locations change every 1024 cases
        self.cases += 1;
        if self.cases % 1024 == 0 {
            io_background(&mut self.cpu, &mut self.mem, self.cases / 1024);
            // ... and the background bus-controller settings (zero every third period)
            {
                let k = self.cases / 1024;
                for (i, a) in [0xfee020u32, 0xfee021, 0xfee022, 0xfee023, 0xfee026].iter().enumerate() {
                    let v = if k % 3 == 0 { 0 } else { ((k.wrapping_mul(0x9e3779b97f4a7c15) >> (8 * i + 3)) & 0xff) as u8 };
                    self.mem.poke(*a, v);
                    real_poke(&mut self.cpu, *a, v);
                }
            }
            // so does the exit address the loader would have recorded (only run() may look at it)
            let k = self.cases / 1024;
            self.cpu.exit_addr = match k % 3 {
                0 => 0,
                1 => 0x416900 + ((k as u32).wrapping_mul(0x9e37) & 0xfffe),
                _ => (k as u32).wrapping_mul(0x9e3779b1) & 0xff_fffe,
            };
        }
        let obs = self.run_inner(c, action);
        self.ring.push((c.clone(), action));
        self.since_full += 1;
        if self.since_full >= self.full_every {
            self.full_check();
        }
        obs
    }

    fn run_inner(&mut self, c: &Case, action: Action) -> Obs {
        self.setup(c);
        let setup_mark = self.mem.wlog.len();
        let mut regs = Regs { er: c.er, ccr: c.ccr, pc: c.pc };
        let busregs = bus_regs(&self.mem);
        // reference first (it never touches the real machine)
        let step = match action {
            Action::Step => exec::step(&mut regs, &mut self.mem),
            Action::Interrupt(v) => model_interrupt(&mut regs, &mut self.mem, v),
        };
        // snapshot of the real bytes in the windows we are going to compare (to report changes)
        // everything the reference wrote, and everything the set-up touched (code bytes, patches):
        // the undo below restores those bytes on both sides, so a stray write there would otherwise
        // vanish before the next full compare
        let mut watch: Vec<u32> = Vec::new();
        let from = if setup_mark <= 1024 { 0 } else { setup_mark };
        for (a, _) in &self.mem.wlog[from..] {
            watch.push(*a);
        }
        if let Some(ea) = step.ea {
            for d in 0..(4 + 2 * self.window) {
                watch.push(ea.wrapping_add(d).wrapping_sub(self.window) & 0xff_ffff);
            }
        }
        // stack neighbourhood
        let sp = c.er[7] & 0xff_ffff;
        for d in 0..(8 + 2 * self.window) {
            watch.push(sp.wrapping_add(d).wrapping_sub(4 + self.window) & 0xff_ffff);
        }
        watch.sort_unstable();
        watch.dedup();
        watch.retain(|a| locate(*a).is_some());
        let before: Vec<u8> = watch.iter().map(|a| real_peek(&self.cpu, *a).unwrap_or(0)).collect();

        let real = match action {
            Action::Step => real_step(&mut self.cpu),
            Action::Interrupt(v) => real_interrupt(&mut self.cpu, v),
        };
        let real_after = real_regs(&self.cpu);
        let queue_after = if action == Action::Step { self.cpu.verif_pending() } else { c.pending.clone() };
        self.cpu.verif_clear_pending();

        let mut diffs = vec![];
        let mut cost_model = None;
        let mut real_changes = vec![];
        for (k, a) in watch.iter().enumerate() {
            let now = real_peek(&self.cpu, *a).unwrap_or(0);
            if now != before[k] {
                real_changes.push((*a, before[k], now));
            }
        }
        match (&step.outcome, &real) {
            (Outcome::Ok(cyc), RealOutcome::Ok(states)) => {
                // as multisets: the order among simultaneously pending requests is not pinned by any
                // property (an implementation may keep them by priority instead of by arrival)
                let (mut qa, mut qw) = (queue_after.clone(), c.pending.clone());
                qa.sort_unstable();
                qw.sort_unstable();
                if qa != qw {
                    diffs.push(Diff::Queue { real: queue_after.clone(), want: c.pending.clone() });
                }
                for i in 0..8 {
                    if step.reg_unjudged & (1 << i) != 0 {
                        continue;
                    }
                    if regs.er[i] != real_after.er[i] {
                        diffs.push(Diff::Reg { i: i as u8, real: real_after.er[i], model: regs.er[i] });
                    }
                }
                let mask = !step.ccr_unjudged;
                if (regs.ccr ^ real_after.ccr) & mask != 0 {
                    diffs.push(Diff::Ccr { real: real_after.ccr, model: regs.ccr, mask });
                }
                if regs.pc != real_after.pc {
                    diffs.push(Diff::Pc { real: real_after.pc, model: regs.pc });
                }
                for a in &watch {
                    if step.mem_unjudged.contains(a) {
                        continue;
                    }
                    let r = real_peek(&self.cpu, *a).unwrap_or(0);
                    let m = self.mem.peek(*a).unwrap_or(0);
                    if r != m {
                        diffs.push(Diff::Mem { addr: *a, real: r, model: m });
                    }
                }
                cost_model = cost::total(cyc, c.pc, &busregs);
                if self.judge_cost {
                    if let Some(cm) = cost_model {
                        if cm < 256 && cm != *states as u32 {
                            diffs.push(Diff::Cost { real: *states as u32, model: cm });
                        }
                    }
                }
            }
            (Outcome::Ok(_), RealOutcome::Err(_)) if step.odd_pc => {}
            (Outcome::Ok(_), RealOutcome::Err(e)) => diffs.push(Diff::RealErr(e.clone())),
            (Outcome::Err(_), RealOutcome::Ok(_)) => diffs.push(Diff::RealOk),
            // the reference executes the instruction, the emulator panicked: whatever C15 makes of
            // the panic, the instruction did not do what its own property says
            (Outcome::Ok(_), RealOutcome::Panic(p)) if !step.odd_pc => diffs.push(Diff::RealErr(format!("PANIC at {}:{}: {}", p.file, p.line, p.msg))),
            _ => {}
        }
        let model_writes: Vec<(u32, u8)> = self.mem.wlog[setup_mark..].iter().map(|(a, _)| (*a, self.mem.peek(*a).unwrap_or(0))).collect();

        // ---- restore both machines to the baseline
        // the 8-bit timer keeps a private copy of its configuration, refreshed when TCR0 is written
        // through the bus: if this step legitimately wrote into the timer block (the reference did
        // too) or was not judged at all, the private copy is brought back in line below; a judged
        // step that did NOT address the timer must not have touched it (let_time_pass looks)
        let judged_ok0 = matches!((&step.outcome, &real), (Outcome::Ok(_), RealOutcome::Ok(_)));
        let resync_timer = !judged_ok0 || self.mem.wlog.iter().any(|(a, _)| (0xffff80..=0xffff9f).contains(a));
        // 1. undo everything the reference logged (set-up and step), newest first
        while let Some((a, old)) = self.mem.wlog.pop() {
            self.mem.poke(a, old);
            real_poke(&mut self.cpu, a, old);
        }
        // 2. whatever else the real machine changed inside the watched windows
        for a in &watch {
            let m = self.mem.peek(*a).unwrap_or(0);
            if real_peek(&self.cpu, *a) != Some(m) {
                real_poke(&mut self.cpu, *a, m);
            }
        }
        if resync_timer {
            self.realign_timer_block();
        }
        // 3. steps that are not judged / failed may have written anywhere: resync the small regions
        let judged_ok = matches!((&step.outcome, &real), (Outcome::Ok(_), RealOutcome::Ok(_)));
        if !judged_ok {
            for ri in [0usize, 2, 3, 4] {
                let src = &self.mem.r[ri];
                let dst = real_region_mut(&mut self.cpu, ri);
                let m = dst.len().min(src.len());
                if dst[..m] != src[..m] {
                    dst[..m].copy_from_slice(&src[..m]);
                }
            }
            // DRAM: windows around every register value
            for r in c.er.iter().chain(real_after.er.iter()) {
                let a0 = (r & 0xff_ffff).wrapping_sub(16);
                for d in 0..40 {
                    let a = a0.wrapping_add(d) & 0xff_ffff;
                    if let Some((1, _)) = locate(a) {
                        let m = self.mem.peek(a).unwrap_or(0);
                        if real_peek(&self.cpu, a) != Some(m) {
                            real_poke(&mut self.cpu, a, m);
                        }
                    }
                }
            }
            // an interrupted step may leave requests / module state behind
            self.cpu.verif_clear_pending();
        }
        Obs { step, real, diffs, model_after: regs, real_after, cost_model, model_writes, real_changes }
    }

    /// Full compare of all five regions; on mismatch locate the culprit among the cases executed
    /// since the previous full compare by re-executing them.
    /// Let peripheral time pass on the real machine while the timer is stopped by its own register
    /// (clock select 0 in the mirror's TCR0): nothing may move. An instruction that secretly
    /// configured a peripheral (partial address decoding, a write decoded twice) shows here, as a
    /// change of the timer registers at the next compare or as an interrupt request.
    /// the control registers of all four channels are re-written through the bus with the baseline
    /// values, so that whatever the peripheral derived from earlier writes is derived again
    fn realign_timer_block(&mut self) {
        for a in [0xffff80u32, 0xffff81, 0xffff90, 0xffff91] {
            let v = self.mem.peek(a).unwrap_or(0);
            let _ = catch_unwind(AssertUnwindSafe(|| self.cpu.bus.write(a, v)));
        }
    }

    fn let_time_pass(&mut self) -> bool {
        // every channel of the 8-bit timer block (an implementation may model channels 1-3 too)
        if [0xffff80u32, 0xffff81, 0xffff90, 0xffff91].iter().any(|a| self.mem.peek(*a).unwrap_or(0) & 7 != 0) {
            return false;
        }
        for _ in 0..40 {
            let _ = catch_unwind(AssertUnwindSafe(|| self.cpu.verif_update_modules(255)));
        }
        let raised = !self.cpu.verif_pending().is_empty();
        self.cpu.verif_clear_pending();
        raised
    }

    pub fn full_check(&mut self) {
        self.full_compares += 1;
        self.since_full = 0;
        let raised = self.let_time_pass();
        let mut bad: Vec<(u32, u8, u8)> = vec![];
        if raised {
            // reported at the timer's status register
            bad.push((0xffff82, real_peek(&self.cpu, 0xffff82).unwrap_or(0) | 0x01, self.mem.peek(0xffff82).unwrap_or(0)));
        }
        for ri in 0..5 {
            let real = real_region(&self.cpu, ri);
            let model = &self.mem.r[ri];
            if real.len() != model.len() || real != &model[..] {
                let m = real.len().min(model.len());
                for o in 0..m {
                    if real[o] != model[o] {
                        if bad.len() < 64 {
                            bad.push((REGIONS[ri].0 + o as u32, real[o], model[o]));
                        }
                    }
                }
            }
        }
        let ring = std::mem::take(&mut self.ring);
        if bad.is_empty() {
            return;
        }
        // repair (the timer through its own registers first, so that its private state stops too)
        for a in [0xffff80u32, 0xffff81, 0xffff90, 0xffff91] {
            let _ = self.cpu.bus.write(a, 0);
        }
        for ri in 0..5 {
            let src = self.mem.r[ri].clone();
            let dst = real_region_mut(&mut self.cpu, ri);
            let m = dst.len().min(src.len());
            dst[..m].copy_from_slice(&src[..m]);
        }
        // locate: re-run each case, look only at the bad addresses
        let timer_involved = bad.iter().any(|(a, _, _)| (0xffff80..=0xffff9f).contains(a));
        let mut located = vec![false; bad.len()];
        for (c, action) in &ring {
            let obs = self.run_inner(c, *action);
            let raised = if timer_involved { self.let_time_pass() } else { false };
            let judged = matches!((&obs.step.outcome, &obs.real), (Outcome::Ok(_), RealOutcome::Ok(_)));
            for (k, (a, r, m)) in bad.iter().enumerate() {
                if real_peek(&self.cpu, *a) != self.mem.peek(*a) || (raised && *a == 0xffff82) {
                    // attributed to the first case that reproduces it; repaired after every case that
                    // does (a later case writing the same location must not leave it behind)
                    if !located[k] {
                        located[k] = true;
                        self.strays.push((Some(c.clone()), *a, *r, *m, judged));
                    }
                    let mv = self.mem.peek(*a).unwrap_or(0);
                    real_poke(&mut self.cpu, *a, mv);
                    if timer_involved {
                        for a in [0xffff80u32, 0xffff81, 0xffff90, 0xffff91] {
                            let _ = self.cpu.bus.write(a, 0);
                        }
                        for t in 0xffff80u32..=0xffff9f {
                            let mv = self.mem.peek(t).unwrap_or(0);
                            real_poke(&mut self.cpu, t, mv);
                        }
                    }
                }
            }
        }
        // whatever the re-runs left behind beyond the recorded locations (the list is capped, unjudged
        // cases may write elsewhere): the machines are aligned once more before the campaign goes on
        for ri in 0..5 {
            let src = self.mem.r[ri].clone();
            let dst = real_region_mut(&mut self.cpu, ri);
            let m = dst.len().min(src.len());
            if dst[..m] != src[..m] {
                dst[..m].copy_from_slice(&src[..m]);
            }
        }
        self.realign_timer_block();
        for (k, (a, r, m)) in bad.iter().enumerate() {
            if !located[k] {
                self.strays.push((None, *a, *r, *m, true));
                if let Ok(path) = std::env::var("H8MON_DEBUG_STRAY") {
                    use std::io::Write;
                    if let Ok(mut f) = std::fs::OpenOptions::new().create(true).append(true).open(&path) {
                        let _ = writeln!(f, "# unlocated stray at {:06x}: real {:02x} model {:02x}; ring of {} cases (case counter {})", a, r, m, ring.len(), self.cases);
                        for (c, act) in &ring {
                            let _ = writeln!(f, "{:?} {}", act, c.to_line());
                        }
                    }
                }
            }
        }
    }

    /// call at the end of a campaign
    pub fn finish(&mut self) {
        self.full_check();
    }
}

// ---------------------------------------------------------------------------------------------
// Session mode: a persistent pair (real machine, mirror) that executes whole programs / histories.
// Every action starts from the REAL machine's state (registers are copied into the model before
// the action, the mirror memory follows the real memory after it), so each action is judged on
// its own and a defect in one instruction cannot cascade into later verdicts (attribution rule).

pub struct Sess {
    pub cpu: Cpu,
    pub mem: Mem,
    pub actions: u64,
    pub full_every: u32,
    since_full: u32,
    pub window: u32,
    pub judge_cost: bool,
    /// (addr, real, model) differences found by full compares (stray writes), with the action index
    pub strays: Vec<(u64, u32, u8, u8)>,
}

impl Sess {
    pub fn new(pass: Option<u32>) -> Sess {
        let l = Lock::new(pass);
        Sess { cpu: l.cpu, mem: l.mem, actions: 0, full_every: 256, since_full: 0, window: 8, judge_cost: false, strays: vec![] }
    }
    pub fn poke(&mut self, addr: u32, v: u8) {
        if self.mem.poke(addr, v) {
            real_poke(&mut self.cpu, addr, v);
        }
    }
    pub fn load(&mut self, addr: u32, bytes: &[u8]) {
        for (i, b) in bytes.iter().enumerate() {
            self.poke(addr + i as u32, *b);
        }
    }
    pub fn poke32(&mut self, addr: u32, v: u32) {
        self.load(addr, &v.to_be_bytes());
    }
    pub fn regs(&self) -> Regs {
        real_regs(&self.cpu)
    }
    pub fn io_background(&mut self, pattern: u64) {
        io_background(&mut self.cpu, &mut self.mem, pattern);
        self.cpu.exit_addr = if pattern % 3 == 0 { 0 } else { 0x416900 + ((pattern as u32) & 0xfffe) };
    }
    pub fn set_regs(&mut self, r: &Regs) {
        set_real_regs(&mut self.cpu, r);
    }

    pub fn act(&mut self, action: Action) -> Obs {
        self.actions += 1;
        let before_regs = real_regs(&self.cpu);
        let mut regs = before_regs.clone();
        let busregs = bus_regs(&self.mem);
        self.mem.wlog.clear();
        let step = match action {
            Action::Step => exec::step(&mut regs, &mut self.mem),
            Action::Interrupt(v) => model_interrupt(&mut regs, &mut self.mem, v),
        };
        let mut watch: Vec<u32> = self.mem.wlog.iter().map(|(a, _)| *a).collect();
        if let Some(ea) = step.ea {
            for d in 0..(4 + 2 * self.window) {
                watch.push(ea.wrapping_add(d).wrapping_sub(self.window) & 0xff_ffff);
            }
        }
        let sp = before_regs.er[7] & 0xff_ffff;
        for d in 0..(8 + 2 * self.window) {
            watch.push(sp.wrapping_add(d).wrapping_sub(4 + self.window) & 0xff_ffff);
        }
        watch.sort_unstable();
        watch.dedup();
        watch.retain(|a| locate(*a).is_some());
        let before: Vec<u8> = watch.iter().map(|a| real_peek(&self.cpu, *a).unwrap_or(0)).collect();
        let real = match action {
            Action::Step => real_step(&mut self.cpu),
            Action::Interrupt(v) => real_interrupt(&mut self.cpu, v),
        };
        let real_after = real_regs(&self.cpu);
        let mut diffs = vec![];
        let mut cost_model = None;
        let mut real_changes = vec![];
        for (k, a) in watch.iter().enumerate() {
            let now = real_peek(&self.cpu, *a).unwrap_or(0);
            if now != before[k] {
                real_changes.push((*a, before[k], now));
            }
        }
        match (&step.outcome, &real) {
            (Outcome::Ok(cyc), RealOutcome::Ok(states)) => {
                for i in 0..8 {
                    if step.reg_unjudged & (1 << i) != 0 {
                        continue;
                    }
                    if regs.er[i] != real_after.er[i] {
                        diffs.push(Diff::Reg { i: i as u8, real: real_after.er[i], model: regs.er[i] });
                    }
                }
                let mask = !step.ccr_unjudged;
                if (regs.ccr ^ real_after.ccr) & mask != 0 {
                    diffs.push(Diff::Ccr { real: real_after.ccr, model: regs.ccr, mask });
                }
                if regs.pc != real_after.pc {
                    diffs.push(Diff::Pc { real: real_after.pc, model: regs.pc });
                }
                for a in &watch {
                    if step.mem_unjudged.contains(a) {
                        continue;
                    }
                    let r = real_peek(&self.cpu, *a).unwrap_or(0);
                    let m = self.mem.peek(*a).unwrap_or(0);
                    if r != m {
                        diffs.push(Diff::Mem { addr: *a, real: r, model: m });
                    }
                }
                if action == Action::Step {
                    cost_model = cost::total(cyc, before_regs.pc, &busregs);
                    if self.judge_cost {
                        if let Some(cm) = cost_model {
                            if cm < 256 && cm != *states as u32 {
                                diffs.push(Diff::Cost { real: *states as u32, model: cm });
                            }
                        }
                    }
                }
            }
            (Outcome::Ok(_), RealOutcome::Err(_)) if step.odd_pc => {}
            (Outcome::Ok(_), RealOutcome::Err(e)) => diffs.push(Diff::RealErr(e.clone())),
            (Outcome::Err(_), RealOutcome::Ok(_)) => diffs.push(Diff::RealOk),
            // the reference executes the instruction, the emulator panicked: whatever C15 makes of
            // the panic, the instruction did not do what its own property says
            (Outcome::Ok(_), RealOutcome::Panic(p)) if !step.odd_pc => diffs.push(Diff::RealErr(format!("PANIC at {}:{}: {}", p.file, p.line, p.msg))),
            _ => {}
        }
        let model_writes: Vec<(u32, u8)> = self.mem.wlog.iter().map(|(a, _)| (*a, self.mem.peek(*a).unwrap_or(0))).collect();
        // ---- mirror follows the real machine
        for a in &watch {
            if let Some(r) = real_peek(&self.cpu, *a) {
                self.mem.poke(*a, r);
            }
        }
        let judged_ok = matches!((&step.outcome, &real), (Outcome::Ok(_), RealOutcome::Ok(_)));
        if !judged_ok {
            self.follow_small_regions();
            for r in before_regs.er.iter().chain(real_after.er.iter()) {
                let a0 = (r & 0xff_ffff).wrapping_sub(16);
                for d in 0..40 {
                    let a = a0.wrapping_add(d) & 0xff_ffff;
                    if let Some((1, _)) = locate(a) {
                        if let Some(v) = real_peek(&self.cpu, a) {
                            self.mem.poke(a, v);
                        }
                    }
                }
            }
        }
        self.mem.wlog.clear();
        self.since_full += 1;
        if self.since_full >= self.full_every {
            self.full_compare();
        }
        Obs { step, real, diffs, model_after: regs, real_after, cost_model, model_writes, real_changes }
    }

    fn follow_small_regions(&mut self) {
        for ri in [0usize, 2, 3, 4] {
            let src = real_region(&self.cpu, ri);
            let m = src.len().min(self.mem.r[ri].len());
            if self.mem.r[ri][..m] != src[..m] {
                self.mem.r[ri][..m].copy_from_slice(&src[..m]);
            }
        }
    }

    /// full five-region compare; differences are recorded as strays and the mirror is re-aligned
    pub fn full_compare(&mut self) {
        self.since_full = 0;
        for ri in 0..5 {
            let real = real_region(&self.cpu, ri);
            let m = real.len().min(self.mem.r[ri].len());
            if real[..m] != self.mem.r[ri][..m] {
                for o in 0..m {
                    if real[o] != self.mem.r[ri][o] {
                        if self.strays.len() < 64 {
                            self.strays.push((self.actions, REGIONS[ri].0 + o as u32, real[o], self.mem.r[ri][o]));
                        }
                    }
                }
                let src: Vec<u8> = real[..m].to_vec();
                self.mem.r[ri][..m].copy_from_slice(&src);
            }
        }
    }
}
