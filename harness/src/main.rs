//! h8mon — runtime monitors for the Koge29 H8/3069F emulator (see /verif/DESIGN.md).
// `repo_src` is a symlink to <repository>/src created by the driver (/verif/check): /repo/src unless
// VERIF_REPO points the monitors at a scratch copy (mutation testing)
#[path = "../repo_src"]
mod repo {
    pub mod bus;
    pub mod cpu;
    pub mod elf;
    pub mod ioport;
    pub mod memory;
    pub mod modules;
    pub mod registers;
    pub mod setting;
    pub mod socket;
}
pub use repo::{bus, cpu, elf, ioport, memory, modules, registers, setting, socket};

mod asm;
mod checks;
mod gen;
mod mon;
mod refmodel;
mod runrig;
mod util;

use std::time::Instant;

fn arg_val(args: &[String], key: &str) -> Option<String> {
    args.iter().position(|a| a == key).and_then(|i| args.get(i + 1).cloned())
}

fn main() {
    let args: Vec<String> = std::env::args().collect();
    if args.len() < 2 {
        eprintln!("usage: h8mon check <id> [--tier quick|thorough] [--seed N] [--shard i --nshards n] [--out file] | replay <file> | selftest");
        std::process::exit(2);
    }
    util::install_panic_hook();
    *setting::ENABLE_PRINT_OPCODE.write().unwrap() = false;
    match args[1].as_str() {
        "check" => {
            let id = args.get(2).cloned().unwrap_or_default();
            let cfg = util::Cfg {
                tier_thorough: arg_val(&args, "--tier").map(|t| t == "thorough").unwrap_or(false),
                seed: arg_val(&args, "--seed").and_then(|s| s.parse().ok()).unwrap_or(1),
                shard: arg_val(&args, "--shard").and_then(|s| s.parse().ok()).unwrap_or(0),
                nshards: arg_val(&args, "--nshards").and_then(|s| s.parse().ok()).unwrap_or(1),
                profile: arg_val(&args, "--profile").unwrap_or_else(|| "release".into()),
                scale: arg_val(&args, "--scale").and_then(|s| s.parse().ok()).unwrap_or(1.0),
            };
            // configuration dimension: the global log level. Odd shards run with the maximum level at
            // Trace (no logger installed, so nothing is printed, but every log macro evaluates its
            // arguments) - behaviour must not depend on it.
            if cfg.shard % 2 == 1 {
                log::set_max_level(log::LevelFilter::Trace);
            }
            // two more: the -i (print every opcode) and -m (print every message) options of the
            // emulator; the driver selects them for one shard each and discards that shard's stdout
            match std::env::var("H8MON_PRINT").as_deref() {
                Ok("opcode") => *setting::ENABLE_PRINT_OPCODE.write().unwrap() = true,
                Ok("messages") => *setting::ENABLE_PRINT_MESSAGES.write().unwrap() = true,
                _ => {}
            }
            let t0 = Instant::now();
            let Some(mut rep) = checks::run(&id, &cfg) else {
                eprintln!("unknown check {}", id);
                std::process::exit(2);
            };
            rep.counters.insert("wall_ms".into(), t0.elapsed().as_millis() as u64);
            let js = rep.to_json();
            match arg_val(&args, "--out") {
                Some(p) => std::fs::write(&p, js).expect("write report"),
                None => println!("{}", js),
            }
        }
        "replay" => {
            let path = args.get(2).cloned().unwrap_or_default();
            let text = std::fs::read_to_string(&path).unwrap_or_default();
            let mut any = false;
            for line in text.lines() {
                if !line.starts_with("check=") {
                    continue;
                }
                let (bad, out) = checks::replay(line);
                print!("{}", out);
                any |= bad;
            }
            println!("{}", if any { "REPRODUCED" } else { "not reproduced" });
            std::process::exit(if any { 1 } else { 0 });
        }
        "c14child" => {
            let seed: u64 = args.get(2).and_then(|s| s.parse().ok()).unwrap_or(1);
            let groups: u64 = args.get(3).and_then(|s| s.parse().ok()).unwrap_or(1);
            let out = args.get(4).cloned().unwrap_or_else(|| "/dev/null".into());
            checks::syscall::child_main(seed, groups, &out);
        }
        "selftest" => {
            let mut rng = util::Rng::new(7);
            match gen::selftest_forms(&mut rng) {
                Ok(n) => println!("form table: {} fills decode as Impl with the right length", n),
                Err(e) => {
                    println!("FORM TABLE ERROR: {}", e);
                    std::process::exit(1);
                }
            }
        }
        _ => {
            eprintln!("unknown command");
            std::process::exit(2);
        }
    }
}
