#[path = "/repo/src"]
mod repo {
    pub mod bus;
    pub mod cpu;
    pub mod elf;
    pub mod ioport;
    pub mod memory;
    pub mod modules;
    pub mod registers;
    pub mod setting;
    pub mod socket;
}
pub use repo::{bus, cpu, elf, ioport, memory, modules, registers, setting, socket};

fn main() {
    let mut c = cpu::Cpu::new();
    c.verif_set_pc(0xffbf20);
    c.bus.memory[0] = 0xf0; c.bus.memory[1] = 0x12;
    let r = c.verif_step();
    println!("{:?} er0={:x} pc={:x}", r.is_ok(), c.er[0], c.verif_pc());
}
