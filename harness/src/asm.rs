//! Minimal H8/300H assembler for generated guest programs (only encodings the emulator implements).

use std::collections::HashMap;

#[derive(Clone, Copy)]
enum Fix {
    /// 8-bit PC-relative at byte `pos+1`, relative to `pos+2`
    Rel8,
    /// 16-bit PC-relative at `pos+2`, relative to `pos+4`
    Rel16,
    /// 24-bit absolute in the low 3 bytes of the long at `pos` (keeps the top byte)
    Abs24At,
    /// 32-bit immediate at `pos`
    Imm32,
}

pub struct Asm {
    pub org: u32,
    pub out: Vec<u8>,
    labels: HashMap<String, u32>,
    fixes: Vec<(usize, String, Fix)>,
    uniq: u32,
}

impl Asm {
    pub fn new(org: u32) -> Asm {
        Asm { org, out: vec![], labels: HashMap::new(), fixes: vec![], uniq: 0 }
    }
    pub fn here(&self) -> u32 {
        self.org + self.out.len() as u32
    }
    pub fn fresh(&mut self, stem: &str) -> String {
        self.uniq += 1;
        format!("{}_{}", stem, self.uniq)
    }
    pub fn label(&mut self, name: &str) {
        let h = self.here();
        self.labels.insert(name.to_string(), h);
    }
    pub fn addr_of(&self, name: &str) -> Option<u32> {
        self.labels.get(name).copied()
    }
    pub fn w(&mut self, w: u16) {
        self.out.push((w >> 8) as u8);
        self.out.push(w as u8);
    }
    pub fn words(&mut self, ws: &[u16]) {
        for w in ws {
            self.w(*w);
        }
    }
    pub fn l(&mut self, v: u32) {
        self.out.extend_from_slice(&v.to_be_bytes());
    }
    /// data long holding the address of a label
    pub fn l_label(&mut self, label: &str) {
        self.fixes.push((self.out.len(), label.to_string(), Fix::Imm32));
        self.l(0);
    }
    pub fn bytes(&mut self, b: &[u8]) {
        self.out.extend_from_slice(b);
    }
    pub fn align(&mut self, n: usize) {
        while self.out.len() % n != 0 {
            self.out.push(0);
        }
    }
    // ---- moves
    pub fn mov_l_imm(&mut self, rd: u8, imm: u32) {
        self.w(0x7a00 | rd as u16);
        self.l(imm);
    }
    pub fn mov_l_label(&mut self, rd: u8, label: &str) {
        self.w(0x7a00 | rd as u16);
        self.fixes.push((self.out.len(), label.to_string(), Fix::Imm32));
        self.l(0);
    }
    pub fn mov_w_imm(&mut self, rd: u8, imm: u16) {
        self.w(0x7900 | rd as u16);
        self.w(imm);
    }
    pub fn mov_b_imm(&mut self, rd: u8, imm: u8) {
        self.w(0xf000 | ((rd as u16) << 8) | imm as u16);
    }
    pub fn mov_l_rr(&mut self, rs: u8, rd: u8) {
        self.w(0x0f80 | ((rs as u16) << 4) | rd as u16);
    }
    pub fn mov_b_to_abs8(&mut self, rs: u8, aa: u8) {
        self.w(0x3000 | ((rs as u16) << 8) | aa as u16);
    }
    pub fn mov_b_from_abs8(&mut self, rd: u8, aa: u8) {
        self.w(0x2000 | ((rd as u16) << 8) | aa as u16);
    }
    pub fn mov_b_to_abs24(&mut self, rs: u8, addr: u32) {
        self.w(0x6aa0 | rs as u16);
        self.l(addr & 0xffffff);
    }
    pub fn mov_b_from_abs24(&mut self, rd: u8, addr: u32) {
        self.w(0x6a20 | rd as u16);
        self.l(addr & 0xffffff);
    }
    pub fn mov_w_to_abs24(&mut self, rs: u8, addr: u32) {
        self.w(0x6ba0 | rs as u16);
        self.l(addr & 0xffffff);
    }
    pub fn mov_w_from_abs24(&mut self, rd: u8, addr: u32) {
        self.w(0x6b20 | rd as u16);
        self.l(addr & 0xffffff);
    }
    pub fn mov_l_to_abs24(&mut self, rs: u8, addr: u32) {
        self.w(0x0100);
        self.w(0x6ba0 | rs as u16);
        self.l(addr & 0xffffff);
    }
    pub fn mov_l_from_abs24(&mut self, rd: u8, addr: u32) {
        self.w(0x0100);
        self.w(0x6b20 | rd as u16);
        self.l(addr & 0xffffff);
    }
    pub fn mov_l_to_label(&mut self, rs: u8, label: &str) {
        self.w(0x0100);
        self.w(0x6ba0 | rs as u16);
        self.fixes.push((self.out.len(), label.to_string(), Fix::Abs24At));
        self.l(0);
    }
    pub fn mov_l_from_label(&mut self, rd: u8, label: &str) {
        self.w(0x0100);
        self.w(0x6b20 | rd as u16);
        self.fixes.push((self.out.len(), label.to_string(), Fix::Abs24At));
        self.l(0);
    }
    pub fn mov_w_to_label(&mut self, rs: u8, label: &str) {
        self.w(0x6ba0 | rs as u16);
        self.fixes.push((self.out.len(), label.to_string(), Fix::Abs24At));
        self.l(0);
    }
    pub fn mov_w_from_label(&mut self, rd: u8, label: &str) {
        self.w(0x6b20 | rd as u16);
        self.fixes.push((self.out.len(), label.to_string(), Fix::Abs24At));
        self.l(0);
    }
    /// MOV.B Rs,@ERd
    pub fn mov_b_to_ind(&mut self, rs: u8, erd: u8) {
        self.w(0x6880 | ((erd as u16) << 4) | rs as u16);
    }
    pub fn mov_b_from_ind(&mut self, ers: u8, rd: u8) {
        self.w(0x6800 | ((ers as u16) << 4) | rd as u16);
    }
    pub fn push_l(&mut self, r: u8) {
        self.w(0x0100);
        self.w(0x6df0 | r as u16);
    }
    pub fn pop_l(&mut self, r: u8) {
        self.w(0x0100);
        self.w(0x6d70 | r as u16);
    }
    // ---- arithmetic used by the fixed skeletons
    pub fn adds1(&mut self, r: u8) {
        self.w(0x0b00 | r as u16);
    }
    pub fn inc_w(&mut self, r: u8) {
        self.w(0x0b50 | r as u16);
    }
    pub fn dec_w(&mut self, r: u8) {
        self.w(0x1b50 | r as u16);
    }
    pub fn dec_l(&mut self, r: u8) {
        self.w(0x1b70 | r as u16);
    }
    pub fn add_l_rr(&mut self, rs: u8, rd: u8) {
        self.w(0x0a80 | ((rs as u16) << 4) | rd as u16);
    }
    pub fn xor_b_imm(&mut self, rd: u8, imm: u8) {
        self.w(0xd000 | ((rd as u16) << 8) | imm as u16);
    }
    // ---- control flow
    pub fn bcc8(&mut self, cc: u8, label: &str) {
        self.fixes.push((self.out.len(), label.to_string(), Fix::Rel8));
        self.w(0x4000 | ((cc as u16) << 8));
    }
    pub fn bcc16(&mut self, cc: u8, label: &str) {
        self.fixes.push((self.out.len(), label.to_string(), Fix::Rel16));
        self.w(0x5800 | ((cc as u16) << 4));
        self.w(0);
    }
    pub fn bsr16(&mut self, label: &str) {
        self.fixes.push((self.out.len(), label.to_string(), Fix::Rel16));
        self.w(0x5c00);
        self.w(0);
    }
    pub fn jsr_label(&mut self, label: &str) {
        self.fixes.push((self.out.len(), label.to_string(), Fix::Abs24At));
        self.l(0x5e00_0000);
    }
    pub fn jmp_label(&mut self, label: &str) {
        self.fixes.push((self.out.len(), label.to_string(), Fix::Abs24At));
        self.l(0x5a00_0000);
    }
    pub fn jmp_abs(&mut self, addr: u32) {
        self.l(0x5a00_0000 | (addr & 0xffffff));
    }
    pub fn rts(&mut self) {
        self.w(0x5470);
    }
    pub fn rte(&mut self) {
        self.w(0x5670);
    }
    pub fn trapa(&mut self, n: u8) {
        self.w(0x5700 | ((n as u16) << 4));
    }
    pub fn finish(mut self) -> (Vec<u8>, HashMap<String, u32>) {
        for (pos, label, kind) in self.fixes.clone() {
            let target = *self.labels.get(&label).unwrap_or_else(|| panic!("undefined label {}", label));
            let at = self.org + pos as u32;
            match kind {
                Fix::Rel8 => {
                    let d = target as i64 - (at as i64 + 2);
                    assert!((-128..=127).contains(&d), "rel8 out of range to {}", label);
                    self.out[pos + 1] = d as u8;
                }
                Fix::Rel16 => {
                    let d = target as i64 - (at as i64 + 4);
                    assert!((-32768..=32767).contains(&d), "rel16 out of range to {}", label);
                    self.out[pos + 2] = (d >> 8) as u8;
                    self.out[pos + 3] = d as u8;
                }
                Fix::Abs24At => {
                    self.out[pos + 1] = (target >> 16) as u8;
                    self.out[pos + 2] = (target >> 8) as u8;
                    self.out[pos + 3] = target as u8;
                }
                Fix::Imm32 => {
                    self.out[pos..pos + 4].copy_from_slice(&target.to_be_bytes());
                }
            }
        }
        (self.out, self.labels)
    }
}
