//! Executable reference semantics for the implemented H8/300H subset (DESIGN.md Appendix A),
//! written from the programming manual's operation / condition-code descriptions.

use super::decode::{decode, Class, Insn, Mn, Opd, Sz};
use super::mem::{is_special_io, locate, Mem};

pub const C: u8 = 0x01;
pub const V: u8 = 0x02;
pub const Z: u8 = 0x04;
pub const N: u8 = 0x08;
pub const U: u8 = 0x10;
pub const H: u8 = 0x20;
pub const UI: u8 = 0x40;
pub const I: u8 = 0x80;

#[derive(Clone, Debug, PartialEq, Eq)]
pub struct Regs {
    pub er: [u32; 8],
    pub ccr: u8,
    pub pc: u32,
}

/// Bus-cycle mix of one executed instruction (advanced mode): counts and the address each kind
/// is costed at.  I is always costed at the instruction's own address.
#[derive(Clone, Copy, Debug, Default, PartialEq, Eq)]
pub struct Cycles {
    pub i: u8,
    pub j: (u8, u32),
    pub k: (u8, u32),
    pub l: (u8, u32),
    pub m: (u8, u32),
    pub n: u8,
    /// false when the manual's figure is not judged for this form (TRAPA #0)
    pub judged: bool,
}

#[derive(Clone, Debug, PartialEq, Eq)]
pub enum Outcome {
    /// executed; post-state is in Regs / Mem
    Ok(Cycles),
    /// the step must return an error (unimplemented instruction, access outside mapped memory)
    Err(&'static str),
    /// the oracle has no opinion (undefined encoding, case excluded by the properties)
    Unjudged(&'static str),
}

pub struct Step {
    pub insn: Insn,
    pub outcome: Outcome,
    /// CCR bits whose post-value is not judged
    pub ccr_unjudged: u8,
    /// memory bytes written by the reference whose value is not judged
    pub mem_unjudged: Vec<u32>,
    /// effective address of the memory operand, if any (for coverage)
    pub ea: Option<u32>,
    /// registers whose post-value is not judged (bit i = ERi)
    pub reg_unjudged: u8,
    /// +/- form whose data register lies inside the address register: the transferred value /
    /// final register are ambiguous, only the accessed location and the cycle mix are defined
    pub overlap: bool,
    /// executed with bit 0 of PC set: an implementation may refuse this (error) - judged only when
    /// the emulator does execute the instruction
    pub odd_pc: bool,
    /// name used in place of the instruction form for actions that are not instructions
    pub label: Option<&'static str>,
}

// ---------------------------------------------------------------------------------------------
// register views

pub fn rd8(er: &[u32; 8], f: u8) -> u32 {
    if f < 8 {
        (er[f as usize] >> 8) & 0xff
    } else {
        er[(f & 7) as usize] & 0xff
    }
}
pub fn wr8(er: &mut [u32; 8], f: u8, v: u32) {
    let v = v & 0xff;
    if f < 8 {
        let r = &mut er[f as usize];
        *r = (*r & 0xffff_00ff) | (v << 8);
    } else {
        let r = &mut er[(f & 7) as usize];
        *r = (*r & 0xffff_ff00) | v;
    }
}
pub fn rd16(er: &[u32; 8], f: u8) -> u32 {
    if f < 8 {
        er[f as usize] & 0xffff
    } else {
        er[(f & 7) as usize] >> 16
    }
}
pub fn wr16(er: &mut [u32; 8], f: u8, v: u32) {
    let v = v & 0xffff;
    if f < 8 {
        let r = &mut er[f as usize];
        *r = (*r & 0xffff_0000) | v;
    } else {
        let r = &mut er[(f & 7) as usize];
        *r = (*r & 0x0000_ffff) | (v << 16);
    }
}
pub fn rdr(er: &[u32; 8], f: u8, sz: Sz) -> u32 {
    match sz {
        Sz::B => rd8(er, f),
        Sz::W => rd16(er, f),
        Sz::L => er[(f & 7) as usize],
    }
}
pub fn wrr(er: &mut [u32; 8], f: u8, sz: Sz, v: u32) {
    match sz {
        Sz::B => wr8(er, f, v),
        Sz::W => wr16(er, f, v),
        Sz::L => er[(f & 7) as usize] = v,
    }
}
/// index of the 32-bit register a B/W/L register field lives in
pub fn er_of(f: u8) -> u8 {
    f & 7
}

// ---------------------------------------------------------------------------------------------
// flag helpers

fn set(ccr: &mut u8, bit: u8, on: bool) {
    if on {
        *ccr |= bit
    } else {
        *ccr &= !bit
    }
}
fn nz(ccr: &mut u8, r: u32, sz: Sz) {
    set(ccr, N, r & sz.msb() != 0);
    set(ccr, Z, r & sz.mask() == 0);
}
/// half-carry mask: bits below the H boundary (bit 3 / 11 / 27)
fn hmask(sz: Sz) -> u32 {
    match sz {
        Sz::B => 0xf,
        Sz::W => 0xfff,
        Sz::L => 0x0fff_ffff,
    }
}

/// d + s + cin with H,N,Z,V,C per the manual.  `zmode`: true = ADDX rule (Z only cleared).
pub fn add_flags(ccr: &mut u8, d: u32, s: u32, cin: u32, sz: Sz, addx: bool) -> u32 {
    let m = sz.mask() as u64;
    let (d, s) = (d as u64 & m, s as u64 & m);
    let full = d + s + cin as u64;
    let r = (full & m) as u32;
    let hm = hmask(sz) as u64;
    set(ccr, H, (d & hm) + (s & hm) + cin as u64 > hm);
    set(ccr, C, full > m);
    let msb = sz.msb() as u64;
    set(ccr, V, (!(d ^ s) & (d ^ full) & msb) != 0);
    set(ccr, N, full & msb != 0);
    if addx {
        if r != 0 {
            *ccr &= !Z;
        }
    } else {
        set(ccr, Z, r == 0);
    }
    r
}

/// d - s with H,N,Z,V,C per the manual (borrows).
pub fn sub_flags(ccr: &mut u8, d: u32, s: u32, sz: Sz) -> u32 {
    let m = sz.mask();
    let (d, s) = (d & m, s & m);
    let r = d.wrapping_sub(s) & m;
    let hm = hmask(sz);
    set(ccr, H, (d & hm) < (s & hm));
    set(ccr, C, d < s);
    let msb = sz.msb();
    set(ccr, V, ((d ^ s) & (d ^ r) & msb) != 0);
    nz(ccr, r, sz);
    r
}

pub fn cond(cc: u8, ccr: u8) -> bool {
    let c = ccr & C != 0;
    let v = ccr & V != 0;
    let z = ccr & Z != 0;
    let n = ccr & N != 0;
    match cc & 0xf {
        0x0 => true,
        0x1 => false,
        0x2 => !(c || z),
        0x3 => c || z,
        0x4 => !c,
        0x5 => c,
        0x6 => !z,
        0x7 => z,
        0x8 => !v,
        0x9 => v,
        0xa => !n,
        0xb => n,
        0xc => n == v,
        0xd => n != v,
        0xe => !(z || (n != v)),
        _ => z || (n != v),
    }
}

// ---------------------------------------------------------------------------------------------

pub fn sext(v: u32, bits: u32) -> u32 {
    let sh = 32 - bits;
    (((v << sh) as i32) >> sh) as u32
}

const AM: u32 = 0x00ff_ffff;

/// Fetch up to five instruction words at pc from the model memory. Words that cannot be read
/// are reported through `avail` (number of readable words).
pub fn fetch_words(mem: &Mem, pc: u32) -> ([u16; 5], usize) {
    let mut w = [0u16; 5];
    let mut avail = 0;
    for i in 0..5u32 {
        let a = pc.wrapping_add(2 * i);
        match (mem.peek(a), mem.peek(a.wrapping_add(1))) {
            (Some(h), Some(l)) => {
                w[i as usize] = ((h as u16) << 8) | l as u16;
                avail += 1;
            }
            _ => break,
        }
    }
    (w, avail)
}

struct Ctx<'a> {
    r: &'a mut Regs,
    mem: &'a mut Mem,
    cyc: Cycles,
    ea: Option<u32>,
    mem_unjudged: Vec<u32>,
    ccr_unjudged: u8,
    reg_unjudged: u8,
    overlap: bool,
    special: bool,
}

enum Stop {
    Err(&'static str),
    Unj(&'static str),
}
type R<T> = Result<T, Stop>;

impl<'a> Ctx<'a> {
    fn check_access(&mut self, a: u32, sz: Sz) -> R<()> {
        let nb = sz.bytes();
        if sz != Sz::B && a & 1 != 0 {
            return Err(Stop::Unj("odd word/long address"));
        }
        if !self.mem.mapped(a, nb) {
            // a fully or partly unmapped access must be reported as an error
            return Err(Stop::Err("access outside mapped memory"));
        }
        Ok(())
    }
    fn load(&mut self, a: u32, sz: Sz) -> R<u32> {
        self.check_access(a, sz)?;
        Ok(match sz {
            Sz::B => self.mem.read8(a).unwrap() as u32,
            Sz::W => self.mem.read16(a).unwrap() as u32,
            Sz::L => self.mem.read32(a).unwrap(),
        })
    }
    fn store(&mut self, a: u32, sz: Sz, v: u32) -> R<()> {
        self.check_access(a, sz)?;
        let nb = sz.bytes();
        for i in 0..nb {
            let b = (v >> (8 * (nb - 1 - i))) as u8;
            let ad = a + i;
            if is_special_io(ad) {
                self.special = true;
            }
            self.mem.write8(ad, b);
        }
        Ok(())
    }
    /// effective address of a memory operand; applies the register side effect of +/- modes
    fn ea_of(&mut self, o: Opd, sz: Sz) -> R<u32> {
        let er = &mut self.r.er;
        let a = match o {
            Opd::Ind(n) => er[n as usize] & AM,
            Opd::D16(n, d) => er[n as usize].wrapping_add(sext(d as u32, 16)) & AM,
            Opd::D24(n, d) => er[n as usize].wrapping_add(sext(d, 24)) & AM,
            Opd::PostInc(n) => {
                let a = er[n as usize] & AM;
                er[n as usize] = er[n as usize].wrapping_add(sz.bytes());
                a
            }
            Opd::PreDec(n) => {
                er[n as usize] = er[n as usize].wrapping_sub(sz.bytes());
                er[n as usize] & AM
            }
            Opd::A8(a) => 0xffff00 | a as u32,
            Opd::A16(a) => sext(a as u32, 16) & AM,
            Opd::A24(a) => a & AM,
            _ => return Err(Stop::Unj("not a memory operand")),
        };
        self.ea = Some(a);
        Ok(a)
    }
}

fn is_mem(o: Opd) -> bool {
    matches!(o, Opd::Ind(_) | Opd::D16(..) | Opd::D24(..) | Opd::PostInc(_) | Opd::PreDec(_) | Opd::A8(_) | Opd::A16(_) | Opd::A24(_))
}
fn addr_reg(o: Opd) -> Option<u8> {
    match o {
        Opd::Ind(n) | Opd::D16(n, _) | Opd::D24(n, _) | Opd::PostInc(n) | Opd::PreDec(n) => Some(n),
        _ => None,
    }
}

/// Execute one instruction of the reference model at r.pc.
pub fn step(r: &mut Regs, mem: &mut Mem) -> Step {
    let pc0 = r.pc;
    // the least significant bit of PC takes no part in instruction fetch (instructions are fetched
    // by word from even addresses); it is carried along when PC advances
    let (w, avail) = fetch_words(mem, pc0 & !1);
    let mut st = Step { insn: Insn::undef(), outcome: Outcome::Unjudged("?"), ccr_unjudged: 0, mem_unjudged: vec![], ea: None, reg_unjudged: 0, overlap: false, odd_pc: pc0 & 1 != 0, label: None };
    if pc0 > AM {
        st.outcome = Outcome::Unjudged("out-of-range pc");
        return st;
    }
    if avail == 0 {
        st.outcome = Outcome::Err("instruction fetch outside mapped memory");
        return st;
    }
    let insn = decode(&w);
    st.insn = insn;
    match insn.class {
        Class::Undef => {
            st.outcome = Outcome::Unjudged("undefined encoding");
            return st;
        }
        Class::Unimpl => {
            // a two-byte unimplemented instruction is rejected whatever follows; for longer ones the
            // extension words must be readable for the classification to be meaningful
            if (insn.len as usize + 1) / 2 > avail {
                st.outcome = Outcome::Err("instruction fetch outside mapped memory");
            } else {
                st.outcome = Outcome::Err("unimplemented instruction");
            }
            return st;
        }
        Class::Impl => {}
    }
    if st.odd_pc && matches!(insn.mn, Mn::Bcc | Mn::Bsr | Mn::Jmp | Mn::Jsr | Mn::Rts | Mn::Rte | Mn::Trapa) {
        // targets and return addresses derived from an odd PC: not defined by the properties
        st.outcome = Outcome::Unjudged("control transfer at odd pc");
        return st;
    }
    if (insn.len as usize + 1) / 2 > avail {
        st.outcome = Outcome::Err("instruction fetch outside mapped memory");
        return st;
    }
    let saved = r.clone();
    let wmark = mem.wlog.len();
    let mut cx = Ctx { r, mem, cyc: Cycles { judged: true, ..Default::default() }, ea: None, mem_unjudged: vec![], ccr_unjudged: 0, reg_unjudged: 0, overlap: false, special: false };
    let res = exec(&mut cx, &insn, pc0);
    let (cyc, ea, mu, cu, special) = (cx.cyc, cx.ea, cx.mem_unjudged, cx.ccr_unjudged, cx.special);
    st.ea = ea;
    st.reg_unjudged = cx.reg_unjudged;
    st.overlap = cx.overlap;
    match res {
        Ok(()) => {
            if special {
                // keep the writes (so that the caller can undo them) but do not judge
                st.outcome = Outcome::Unjudged("write to port/timer register");
            } else {
                st.outcome = Outcome::Ok(cyc);
            }
            st.mem_unjudged = mu;
            st.ccr_unjudged = cu;
        }
        Err(stop) => {
            // roll the model back: state after a failing step is not judged
            while mem.wlog.len() > wmark {
                let (a, old) = mem.wlog.pop().unwrap();
                mem.poke(a, old);
            }
            *r = saved;
            st.outcome = match stop {
                Stop::Err(s) => Outcome::Err(s),
                Stop::Unj(s) => Outcome::Unjudged(s),
            };
        }
    }
    st
}

fn exec(cx: &mut Ctx, i: &Insn, pc0: u32) -> R<()> {
    use Mn::*;
    let sz = i.sz;
    let next = pc0.wrapping_add(i.len as u32);
    let words = i.len / 2;
    cx.cyc.i = words;
    cx.r.pc = next;
    match i.mn {
        Mov => {
            // +/- forms with the data register inside the address register: the properties exclude
            // them as far as values go; the accessed location and the cycle mix stay defined
            let mut overlap_store = false;
            if let (Some(a), Opd::R(d)) = (addr_reg(i.src), i.dst) {
                if matches!(i.src, Opd::PostInc(_)) && er_of(d) == a {
                    cx.overlap = true;
                    cx.reg_unjudged |= 1 << a;
                }
            }
            if let (Opd::R(s), Some(a)) = (i.src, addr_reg(i.dst)) {
                if matches!(i.dst, Opd::PreDec(_)) && er_of(s) == a {
                    cx.overlap = true;
                    overlap_store = true;
                }
            }
            let v = match i.src {
                Opd::Imm(v) => v,
                Opd::R(f) => rdr(&cx.r.er, f, sz),
                m if is_mem(m) => {
                    let a = cx.ea_of(m, sz)?;
                    data_cycles(cx, sz, a);
                    cx.load(a, sz)?
                }
                _ => return Err(Stop::Unj("bad operand")),
            };
            match i.dst {
                Opd::R(f) => wrr(&mut cx.r.er, f, sz, v),
                m if is_mem(m) => {
                    let a = cx.ea_of(m, sz)?;
                    data_cycles(cx, sz, a);
                    cx.store(a, sz, v)?;
                }
                _ => return Err(Stop::Unj("bad operand")),
            }
            if matches!(i.src, Opd::PostInc(_)) || matches!(i.dst, Opd::PreDec(_)) {
                cx.cyc.n = 2;
            }
            nz(&mut cx.r.ccr, v, sz);
            cx.r.ccr &= !V;
            if overlap_store {
                // which value is stored (before / after the decrement) is not judged
                cx.ccr_unjudged |= N | Z;
                if let Some(a) = cx.ea {
                    for k in 0..sz.bytes() {
                        cx.mem_unjudged.push(a + k);
                    }
                }
            }
        }
        Add | Sub | Cmp => {
            let s = match i.src {
                Opd::Imm(v) => v,
                Opd::R(f) => rdr(&cx.r.er, f, sz),
                _ => return Err(Stop::Unj("bad operand")),
            };
            let Opd::R(df) = i.dst else { return Err(Stop::Unj("bad operand")) };
            let d = rdr(&cx.r.er, df, sz);
            let r = if i.mn == Add { add_flags(&mut cx.r.ccr, d, s, 0, sz, false) } else { sub_flags(&mut cx.r.ccr, d, s, sz) };
            if i.mn != Cmp {
                wrr(&mut cx.r.er, df, sz, r);
            }
        }
        Addx => {
            let s = match i.src {
                Opd::Imm(v) => v,
                Opd::R(f) => rd8(&cx.r.er, f),
                _ => return Err(Stop::Unj("bad operand")),
            };
            let Opd::R(df) = i.dst else { return Err(Stop::Unj("bad operand")) };
            let d = rd8(&cx.r.er, df);
            let cin = (cx.r.ccr & C) as u32;
            let r = add_flags(&mut cx.r.ccr, d, s, cin, Sz::B, true);
            wr8(&mut cx.r.er, df, r);
        }
        Adds | Subs => {
            let Opd::R(df) = i.dst else { return Err(Stop::Unj("bad operand")) };
            let d = cx.r.er[df as usize];
            cx.r.er[df as usize] = if i.mn == Adds { d.wrapping_add(i.k as u32) } else { d.wrapping_sub(i.k as u32) };
        }
        Inc | Dec => {
            let Opd::R(df) = i.dst else { return Err(Stop::Unj("bad operand")) };
            let d = rdr(&cx.r.er, df, sz);
            let k = i.k as u32;
            let m = sz.mask();
            let r = if i.mn == Inc { d.wrapping_add(k) & m } else { d.wrapping_sub(k) & m };
            let msb = sz.msb();
            // signed overflow of d +/- k
            let ov = if i.mn == Inc { (d & msb == 0) && (r & msb != 0) } else { (d & msb != 0) && (r & msb == 0) };
            wrr(&mut cx.r.er, df, sz, r);
            nz(&mut cx.r.ccr, r, sz);
            set(&mut cx.r.ccr, V, ov);
        }
        Neg => {
            let Opd::R(df) = i.dst else { return Err(Stop::Unj("bad operand")) };
            let d = rdr(&cx.r.er, df, sz);
            let r = sub_flags(&mut cx.r.ccr, 0, d, sz);
            wrr(&mut cx.r.er, df, sz, r);
        }
        Mulxu => {
            let (Opd::R(sf), Opd::R(df)) = (i.src, i.dst) else { return Err(Stop::Unj("bad operand")) };
            if sz == Sz::B {
                let s = rd8(&cx.r.er, sf);
                let d = rd16(&cx.r.er, df) & 0xff;
                wr16(&mut cx.r.er, df, s * d);
                cx.cyc.n = 12;
            } else {
                let s = rd16(&cx.r.er, sf);
                let d = cx.r.er[df as usize] & 0xffff;
                cx.r.er[df as usize] = s.wrapping_mul(d);
                cx.cyc.n = 20;
            }
        }
        Divxu => {
            let (Opd::R(sf), Opd::R(df)) = (i.src, i.dst) else { return Err(Stop::Unj("bad operand")) };
            if sz == Sz::B {
                let s = rd8(&cx.r.er, sf);
                let d = rd16(&cx.r.er, df);
                if s == 0 {
                    return Err(Stop::Unj("division by zero"));
                }
                let (q, rem) = (d / s, d % s);
                if q > 0xff {
                    return Err(Stop::Unj("quotient overflow"));
                }
                set(&mut cx.r.ccr, N, s & 0x80 != 0);
                set(&mut cx.r.ccr, Z, false);
                wr16(&mut cx.r.er, df, (rem << 8) | q);
                cx.cyc.n = 12;
            } else {
                let s = rd16(&cx.r.er, sf);
                let d = cx.r.er[df as usize];
                if s == 0 {
                    return Err(Stop::Unj("division by zero"));
                }
                let (q, rem) = (d / s, d % s);
                if q > 0xffff {
                    return Err(Stop::Unj("quotient overflow"));
                }
                set(&mut cx.r.ccr, N, s & 0x8000 != 0);
                set(&mut cx.r.ccr, Z, false);
                cx.r.er[df as usize] = (rem << 16) | q;
                cx.cyc.n = 20;
            }
        }
        And | Or | Xor => {
            let s = match i.src {
                Opd::Imm(v) => v,
                Opd::R(f) => rdr(&cx.r.er, f, sz),
                _ => return Err(Stop::Unj("bad operand")),
            };
            let Opd::R(df) = i.dst else { return Err(Stop::Unj("bad operand")) };
            let d = rdr(&cx.r.er, df, sz);
            let r = match i.mn {
                And => d & s,
                Or => d | s,
                _ => d ^ s,
            } & sz.mask();
            wrr(&mut cx.r.er, df, sz, r);
            nz(&mut cx.r.ccr, r, sz);
            cx.r.ccr &= !V;
        }
        Not => {
            let Opd::R(df) = i.dst else { return Err(Stop::Unj("bad operand")) };
            let r = !rdr(&cx.r.er, df, sz) & sz.mask();
            wrr(&mut cx.r.er, df, sz, r);
            nz(&mut cx.r.ccr, r, sz);
            cx.r.ccr &= !V;
        }
        Extu => {
            let Opd::R(df) = i.dst else { return Err(Stop::Unj("bad operand")) };
            let d = rdr(&cx.r.er, df, sz);
            let r = if sz == Sz::W { d & 0xff } else { d & 0xffff };
            wrr(&mut cx.r.er, df, sz, r);
            cx.r.ccr &= !(N | V);
            set(&mut cx.r.ccr, Z, r == 0);
        }
        Shll | Shal | Shlr | Shar | Rotxl | Rotl | Rotxr | Rotr => {
            let Opd::R(df) = i.dst else { return Err(Stop::Unj("bad operand")) };
            let d = rdr(&cx.r.er, df, sz);
            let m = sz.mask();
            let msb = sz.msb();
            let cin = (cx.r.ccr & C) as u32;
            let top = (d & msb != 0) as u32;
            let low = d & 1;
            let (r, cout) = match i.mn {
                Shll | Shal => ((d << 1) & m, top),
                Shlr => ((d & m) >> 1, low),
                Shar => (((d & m) >> 1) | (d & msb), low),
                Rotxl => (((d << 1) | cin) & m, top),
                Rotl => (((d << 1) | top) & m, top),
                Rotxr => (((d & m) >> 1) | if cin != 0 { msb } else { 0 }, low),
                _ => (((d & m) >> 1) | if low != 0 { msb } else { 0 }, low),
            };
            wrr(&mut cx.r.er, df, sz, r);
            nz(&mut cx.r.ccr, r, sz);
            set(&mut cx.r.ccr, C, cout != 0);
            let v = i.mn == Shal && ((d ^ r) & msb != 0);
            set(&mut cx.r.ccr, V, v);
        }
        Bset | Bnot | Bclr | Btst | Bst | Bist | Bld | Bild | Band | Biand | Bor | Bior | Bxor | Bixor => {
            let bit = match i.src {
                Opd::Imm(b) => b & 7,
                Opd::R(f) => rd8(&cx.r.er, f) & 7,
                _ => return Err(Stop::Unj("bad operand")),
            };
            let writes = matches!(i.mn, Bset | Bnot | Bclr | Bst | Bist);
            let (val, ea) = match i.dst {
                Opd::R(f) => (rd8(&cx.r.er, f), None),
                m if is_mem(m) => {
                    let a = cx.ea_of(m, Sz::B)?;
                    cx.cyc.l = (if writes { 2 } else { 1 }, a);
                    (cx.load(a, Sz::B)?, Some(a))
                }
                _ => return Err(Stop::Unj("bad operand")),
            };
            let mask = 1u32 << bit;
            let b = (val & mask != 0) as u8;
            let c = cx.r.ccr & C;
            let mut newval = None;
            match i.mn {
                Bset => newval = Some(val | mask),
                Bclr => newval = Some(val & !mask),
                Bnot => newval = Some(val ^ mask),
                Bst => newval = Some(if c != 0 { val | mask } else { val & !mask }),
                Bist => newval = Some(if c == 0 { val | mask } else { val & !mask }),
                Btst => set(&mut cx.r.ccr, Z, b == 0),
                Bld => set(&mut cx.r.ccr, C, b != 0),
                Bild => set(&mut cx.r.ccr, C, b == 0),
                Band => set(&mut cx.r.ccr, C, c & b != 0),
                Biand => set(&mut cx.r.ccr, C, c & (b ^ 1) != 0),
                Bor => set(&mut cx.r.ccr, C, c | b != 0),
                Bior => set(&mut cx.r.ccr, C, c | (b ^ 1) != 0),
                Bxor => set(&mut cx.r.ccr, C, c ^ b != 0),
                _ => set(&mut cx.r.ccr, C, c ^ (b ^ 1) != 0),
            }
            if let Some(nv) = newval {
                match (i.dst, ea) {
                    (Opd::R(f), _) => wr8(&mut cx.r.er, f, nv),
                    (_, Some(a)) => cx.store(a, Sz::B, nv)?,
                    _ => {}
                }
            }
        }
        Bcc => {
            let Opd::Rel(d, bits) = i.src else { return Err(Stop::Unj("bad operand")) };
            if d & 1 != 0 {
                return Err(Stop::Unj("odd displacement"));
            }
            if bits == 16 {
                cx.cyc.n = 2;
            }
            cx.cyc.i = 2;
            let t = next.wrapping_add(sext(d as u32, bits as u32));
            if t > AM {
                return Err(Stop::Unj("pc-relative target wraps"));
            }
            if cond(i.k, cx.r.ccr) {
                cx.r.pc = t;
            }
        }
        Jmp => {
            cx.cyc.i = 2;
            match i.src {
                Opd::Ind(n) => cx.r.pc = cx.r.er[n as usize] & AM,
                Opd::A24(a) => {
                    cx.r.pc = a & AM;
                    cx.cyc.n = 2;
                }
                Opd::MInd(a) => {
                    let va = a as u32;
                    cx.ea = Some(va);
                    let t = cx.load(va, Sz::L)?;
                    cx.r.pc = t & AM;
                    cx.cyc.j = (2, va);
                    cx.cyc.n = 2;
                }
                _ => return Err(Stop::Unj("bad operand")),
            }
        }
        Bsr | Jsr => {
            cx.cyc.i = 2;
            let target = match i.src {
                Opd::Rel(d, bits) => {
                    if d & 1 != 0 {
                        return Err(Stop::Unj("odd displacement"));
                    }
                    if bits == 16 {
                        cx.cyc.n = 2;
                    }
                    let t = next.wrapping_add(sext(d as u32, bits as u32));
                    if t > AM {
                        return Err(Stop::Unj("pc-relative target wraps"));
                    }
                    t
                }
                Opd::Ind(n) => {
                    if n == 7 {
                        return Err(Stop::Unj("JSR @ER7"));
                    }
                    cx.r.er[n as usize] & AM
                }
                Opd::A24(a) => {
                    cx.cyc.n = 2;
                    a & AM
                }
                Opd::MInd(a) => {
                    let va = a as u32;
                    cx.ea = Some(va);
                    cx.cyc.j = (2, va);
                    // vector is read before the push on hardware; identical unless they overlap
                    let sp4 = cx.r.er[7].wrapping_sub(4) & AM;
                    if sp4 < 0x100 + 4 {
                        return Err(Stop::Unj("stack overlaps vector table"));
                    }
                    cx.load(va, Sz::L)? & AM
                }
                _ => return Err(Stop::Unj("bad operand")),
            };
            if cx.r.er[7] & 1 != 0 {
                return Err(Stop::Unj("odd stack pointer"));
            }
            cx.r.er[7] = cx.r.er[7].wrapping_sub(4);
            let sp = cx.r.er[7] & AM;
            cx.cyc.k = (2, sp);
            cx.store(sp, Sz::L, next & AM)?;
            cx.mem_unjudged.push(sp); // reserved byte of the frame
            cx.r.pc = target;
        }
        Rts => {
            if cx.r.er[7] & 1 != 0 {
                return Err(Stop::Unj("odd stack pointer"));
            }
            let sp = cx.r.er[7] & AM;
            let v = cx.load(sp, Sz::L)?;
            cx.r.er[7] = cx.r.er[7].wrapping_add(4);
            cx.r.pc = v & AM;
            cx.cyc.i = 2;
            cx.cyc.k = (2, sp);
            cx.cyc.n = 2;
        }
        Rte => {
            if cx.r.er[7] & 1 != 0 {
                return Err(Stop::Unj("odd stack pointer"));
            }
            let sp = cx.r.er[7] & AM;
            let v = cx.load(sp, Sz::L)?;
            cx.r.er[7] = cx.r.er[7].wrapping_add(4);
            cx.r.ccr = (v >> 24) as u8;
            cx.r.pc = v & AM;
            cx.cyc.i = 2;
            cx.cyc.k = (2, sp);
            cx.cyc.n = 2;
        }
        Trapa => {
            if i.k == 0 {
                return Err(Stop::Unj("TRAPA #0 is the MES system call (C14)"));
            }
            if cx.r.er[7] & 1 != 0 {
                return Err(Stop::Unj("odd stack pointer"));
            }
            let va = 4 * (8 + i.k as u32);
            let sp4 = cx.r.er[7].wrapping_sub(4) & AM;
            if sp4 < 0x100 + 4 {
                return Err(Stop::Unj("stack overlaps vector table"));
            }
            let t = cx.load(va, Sz::L)?;
            cx.r.er[7] = cx.r.er[7].wrapping_sub(4);
            let sp = cx.r.er[7] & AM;
            let frame = ((cx.r.ccr as u32) << 24) | (next & AM);
            cx.store(sp, Sz::L, frame)?;
            cx.r.ccr |= I;
            cx.ccr_unjudged = UI;
            cx.r.pc = t & AM;
            cx.cyc.i = 2;
            cx.cyc.j = (2, va);
            cx.cyc.k = (2, sp);
            cx.cyc.n = 4;
        }
        Stc => {
            match i.dst {
                Opd::R(f) => wr8(&mut cx.r.er, f, cx.r.ccr as u32),
                m if is_mem(m) => {
                    let a = cx.ea_of(m, Sz::W)?;
                    cx.cyc.m = (1, a);
                    if matches!(m, Opd::PreDec(_)) {
                        cx.cyc.n = 2;
                    }
                    // CCR goes to the even (first) byte; the other byte of the word is not judged
                    let v = (cx.r.ccr as u32) << 8;
                    cx.store(a, Sz::W, v)?;
                    cx.mem_unjudged.push(a);
                    cx.mem_unjudged.push(a + 1);
                }
                _ => return Err(Stop::Unj("bad operand")),
            }
        }
        _ => return Err(Stop::Unj("no semantics")),
    }
    Ok(())
}

fn data_cycles(cx: &mut Ctx, sz: Sz, a: u32) {
    match sz {
        Sz::B => cx.cyc.l = (1, a),
        Sz::W => cx.cyc.m = (1, a),
        Sz::L => cx.cyc.m = (2, a),
    }
}

/// Interrupt / exception entry through vector `v` as the properties C06/C10 state it.
/// Returns false (nothing changed) when the frame or vector is not accessible.
pub fn exception_entry(r: &mut Regs, mem: &mut Mem, v: u32) -> bool {
    let va = 4 * v;
    let sp = r.er[7].wrapping_sub(4) & AM;
    if sp & 1 != 0 || !mem.mapped(sp, 4) || !mem.mapped(va, 4) {
        return false;
    }
    let t = mem.read32(va).unwrap();
    r.er[7] = r.er[7].wrapping_sub(4);
    let frame = ((r.ccr as u32) << 24) | (r.pc & AM);
    for i in 0..4 {
        mem.write8(sp + i, (frame >> (8 * (3 - i))) as u8);
    }
    r.ccr |= I;
    r.pc = t & AM;
    true
}

pub fn _unused(_: Option<(usize, usize)>) {
    let _ = locate(0);
}
