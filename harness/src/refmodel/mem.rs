//! Independent model of the guest address space (H8/3069F mode-5 map as the property C09 states it).
//! Five byte arrays; everything else (including anything >= 2^24) is inaccessible.

pub const VEC_LO: u32 = 0x000000;
pub const VEC_HI: u32 = 0x0000ff;
pub const DRAM_LO: u32 = 0x400000;
pub const DRAM_HI: u32 = 0x5fffff;
pub const IO1_LO: u32 = 0xfee000;
pub const IO1_HI: u32 = 0xfee0ff;
pub const RAM_LO: u32 = 0xffbf20;
pub const RAM_HI: u32 = 0xffff1f;
pub const IO2_LO: u32 = 0xffff20;
pub const IO2_HI: u32 = 0xffffe9;

pub const REGIONS: [(u32, u32, &str); 5] = [
    (VEC_LO, VEC_HI, "vec"),
    (DRAM_LO, DRAM_HI, "dram"),
    (IO1_LO, IO1_HI, "io1"),
    (RAM_LO, RAM_HI, "ram"),
    (IO2_LO, IO2_HI, "io2"),
];

#[inline]
pub fn locate(addr: u32) -> Option<(usize, usize)> {
    // deliberately written as explicit comparisons on the full 32-bit value
    if addr <= VEC_HI {
        Some((0, addr as usize))
    } else if addr >= DRAM_LO && addr <= DRAM_HI {
        Some((1, (addr - DRAM_LO) as usize))
    } else if addr >= IO1_LO && addr <= IO1_HI {
        Some((2, (addr - IO1_LO) as usize))
    } else if addr >= RAM_LO && addr <= RAM_HI {
        Some((3, (addr - RAM_LO) as usize))
    } else if addr >= IO2_LO && addr <= IO2_HI {
        Some((4, (addr - IO2_LO) as usize))
    } else {
        None
    }
}

pub fn region_name(addr: u32) -> &'static str {
    match locate(addr) {
        Some((i, _)) => REGIONS[i].2,
        None => "hole",
    }
}

/// Locations whose writes have peripheral side effects (port DDR/DR, 8-bit timer block):
/// the instruction-level oracle does not judge steps that write them (C16/C17 do).
#[inline]
pub fn is_special_io(addr: u32) -> bool {
    (addr >= 0xfee000 && addr <= 0xfee00a) || (addr >= 0xffffd0 && addr <= 0xffffda) || (addr >= 0xffff80 && addr <= 0xffff9f)
}

pub struct Mem {
    pub r: [Vec<u8>; 5],
    /// (addr, old value) of every byte written since the log was last cleared
    pub wlog: Vec<(u32, u8)>,
    /// addresses read (only recorded when `track_reads`)
    pub rlog: Vec<u32>,
    pub track_reads: bool,
}

impl Mem {
    pub fn new() -> Self {
        Mem {
            r: [
                vec![0; (VEC_HI - VEC_LO + 1) as usize],
                vec![0; (DRAM_HI - DRAM_LO + 1) as usize],
                vec![0; (IO1_HI - IO1_LO + 1) as usize],
                vec![0; (RAM_HI - RAM_LO + 1) as usize],
                vec![0; (IO2_HI - IO2_LO + 1) as usize],
            ],
            wlog: Vec::new(),
            rlog: Vec::new(),
            track_reads: false,
        }
    }
    #[inline]
    pub fn peek(&self, addr: u32) -> Option<u8> {
        locate(addr).map(|(i, o)| self.r[i][o])
    }
    /// silent store (no log) — used for set-up and undo
    #[inline]
    pub fn poke(&mut self, addr: u32, v: u8) -> bool {
        match locate(addr) {
            Some((i, o)) => {
                self.r[i][o] = v;
                true
            }
            None => false,
        }
    }
    #[inline]
    pub fn read8(&mut self, addr: u32) -> Option<u8> {
        if self.track_reads {
            self.rlog.push(addr);
        }
        self.peek(addr)
    }
    #[inline]
    pub fn write8(&mut self, addr: u32, v: u8) -> bool {
        match locate(addr) {
            Some((i, o)) => {
                self.wlog.push((addr, self.r[i][o]));
                self.r[i][o] = v;
                true
            }
            None => false,
        }
    }
    pub fn read16(&mut self, a: u32) -> Option<u16> {
        let h = self.read8(a)?;
        let l = self.read8(a.wrapping_add(1))?;
        Some(((h as u16) << 8) | l as u16)
    }
    pub fn read32(&mut self, a: u32) -> Option<u32> {
        let h = self.read16(a)?;
        let l = self.read16(a.wrapping_add(2))?;
        Some(((h as u32) << 16) | l as u32)
    }
    /// all bytes mapped?
    pub fn mapped(&self, a: u32, n: u32) -> bool {
        (0..n).all(|i| locate(a.wrapping_add(i)).is_some())
    }
    pub fn any_mapped(&self, a: u32, n: u32) -> bool {
        (0..n).any(|i| locate(a.wrapping_add(i)).is_some())
    }
}
