//! Bus-cycle cost function written from the text of property C19 / the hardware manual's bus
//! controller chapter (not from the emulator).

use super::exec::Cycles;
use super::mem::{RAM_HI, RAM_LO};

#[derive(Clone, Copy, PartialEq, Eq, Debug, Hash)]
pub enum Kind {
    I,
    J,
    K,
    L,
    M,
    N,
}

#[derive(Clone, Copy, Debug, Default, PartialEq, Eq)]
pub struct BusRegs {
    pub abwcr: u8,
    pub astcr: u8,
    pub wcrh: u8,
    pub wcrl: u8,
    pub drcra: u8,
}

pub const ABWCR: u32 = 0xfee020;
pub const ASTCR: u32 = 0xfee021;
pub const WCRH: u32 = 0xfee022;
pub const WCRL: u32 = 0xfee023;
pub const DRCRA: u32 = 0xfee026;

/// States for ONE bus cycle of `kind` at `addr`; None = not judged (on-chip I/O register ranges,
/// areas 3-5 selected as DRAM space, address outside 24 bits).
pub fn cost1(kind: Kind, addr: u32, b: &BusRegs) -> Option<u32> {
    if kind == Kind::N {
        return Some(1);
    }
    if addr > 0xff_ffff {
        return None;
    }
    if addr >= RAM_LO && addr <= RAM_HI {
        return Some(2);
    }
    if (addr >= 0xfee000 && addr <= 0xfee0ff) || addr >= 0xffff20 {
        return None;
    }
    let area = addr >> 21;
    let dras = b.drcra >> 5;
    let dram = match area {
        2 => dras >= 1,
        3..=5 => {
            if dras >= 2 {
                return None;
            }
            false
        }
        _ => false,
    };
    let w = if area < 4 { (b.wcrl >> (2 * area)) & 3 } else { (b.wcrh >> (2 * (area - 4))) & 3 } as u32;
    let eight = (b.abwcr >> area) & 1 == 1;
    let accesses = if eight && kind != Kind::L { 2 } else { 1 };
    let per = if dram {
        4 + w
    } else if (b.astcr >> area) & 1 == 1 {
        3 + w
    } else {
        2
    };
    Some(accesses * per)
}

/// Total states of an instruction with cycle mix `c` fetched at `pc`.
pub fn total(c: &Cycles, pc: u32, b: &BusRegs) -> Option<u32> {
    if !c.judged {
        return None;
    }
    let mut t = 0u32;
    t += c.i as u32 * cost1(Kind::I, pc, b)?;
    if c.j.0 > 0 {
        t += c.j.0 as u32 * cost1(Kind::J, c.j.1, b)?;
    }
    if c.k.0 > 0 {
        t += c.k.0 as u32 * cost1(Kind::K, c.k.1, b)?;
    }
    if c.l.0 > 0 {
        t += c.l.0 as u32 * cost1(Kind::L, c.l.1, b)?;
    }
    if c.m.0 > 0 {
        t += c.m.0 as u32 * cost1(Kind::M, c.m.1, b)?;
    }
    t += c.n as u32;
    Some(t)
}
