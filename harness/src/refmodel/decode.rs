//! Independent H8/300H decode table (DESIGN.md Appendix A), written from the programming
//! manual's instruction-format tables, not from the emulator.
//!
//! Classification:
//!   Impl    — valid encoding of an instruction the emulator claims to implement
//!   Unimpl  — valid encoding of a listed unimplemented instruction (must be rejected)
//!   Undef   — anything else, or anything I am not certain about (never judged)

#[derive(Clone, Copy, PartialEq, Eq, Debug, Hash, PartialOrd, Ord)]
pub enum Mn {
    Mov, Add, Sub, Cmp, Addx, Adds, Subs, Inc, Dec, Neg, Mulxu, Divxu,
    And, Or, Xor, Not, Extu,
    Shll, Shal, Shlr, Shar, Rotxl, Rotl, Rotxr, Rotr,
    Bset, Bnot, Bclr, Btst, Bst, Bist, Bld, Bild, Band, Biand, Bor, Bior, Bxor, Bixor,
    Bcc, Jmp, Bsr, Jsr, Rts, Rte, Trapa, Stc,
    // listed unimplemented instructions
    Nop, Sleep, Ldc, Orc, Xorc, Andc, Subx, Daa, Das, Exts, Mulxs, Divxs, Eepmov, Movfpe, Movtpe,
    Undef,
}

#[derive(Clone, Copy, PartialEq, Eq, Debug, Hash, PartialOrd, Ord)]
pub enum Sz {
    B,
    W,
    L,
}
impl Sz {
    pub fn bytes(self) -> u32 {
        match self {
            Sz::B => 1,
            Sz::W => 2,
            Sz::L => 4,
        }
    }
    pub fn bits(self) -> u32 {
        self.bytes() * 8
    }
    pub fn mask(self) -> u32 {
        match self {
            Sz::B => 0xff,
            Sz::W => 0xffff,
            Sz::L => 0xffff_ffff,
        }
    }
    pub fn msb(self) -> u32 {
        1u32 << (self.bits() - 1)
    }
    pub fn ch(self) -> char {
        match self {
            Sz::B => 'B',
            Sz::W => 'W',
            Sz::L => 'L',
        }
    }
}

#[derive(Clone, Copy, PartialEq, Eq, Debug, Hash)]
pub enum Opd {
    None,
    Imm(u32),
    /// register direct; the field is 4 bits for B/W (RnH/RnL, Rn/En) and 3 bits for L
    R(u8),
    /// @ERn
    Ind(u8),
    /// @(d:16,ERn) — raw 16-bit displacement
    D16(u8, u16),
    /// @(d:24,ERn) — raw 24-bit displacement
    D24(u8, u32),
    /// @ERn+
    PostInc(u8),
    /// @-ERn
    PreDec(u8),
    A8(u8),
    A16(u16),
    A24(u32),
    /// @@aa:8
    MInd(u8),
    /// PC-relative, raw displacement and its width in bits
    Rel(u16, u8),
    Ccr,
}

#[derive(Clone, Copy, PartialEq, Eq, Debug, Hash)]
pub enum Class {
    Impl,
    Unimpl,
    Undef,
}

#[derive(Clone, Copy, Debug, PartialEq, Eq)]
pub struct Insn {
    pub mn: Mn,
    pub sz: Sz,
    pub src: Opd,
    pub dst: Opd,
    /// condition code (Bcc), trap number (TRAPA), immediate constant (ADDS/SUBS/INC/DEC)
    pub k: u8,
    /// encoded length in bytes
    pub len: u8,
    pub class: Class,
}

impl Insn {
    fn new(mn: Mn, sz: Sz, src: Opd, dst: Opd, len: u8) -> Insn {
        Insn { mn, sz, src, dst, k: 0, len, class: Class::Impl }
    }
    fn k(mut self, k: u8) -> Insn {
        self.k = k;
        self
    }
    fn unimpl(mn: Mn, len: u8) -> Insn {
        Insn { mn, sz: Sz::B, src: Opd::None, dst: Opd::None, k: 0, len, class: Class::Unimpl }
    }
    pub fn undef() -> Insn {
        Insn { mn: Mn::Undef, sz: Sz::B, src: Opd::None, dst: Opd::None, k: 0, len: 2, class: Class::Undef }
    }

    /// Human-readable form name (mnemonic + addressing modes, no field values): the unit of
    /// coverage accounting and of finding signatures.
    pub fn form(&self) -> String {
        fn o(x: &Opd, sz: Sz) -> String {
            match x {
                Opd::None => String::new(),
                Opd::Imm(_) => "#imm".into(),
                Opd::R(_) => match sz {
                    Sz::L => "ERn".into(),
                    _ => "Rn".into(),
                },
                Opd::Ind(_) => "@ERn".into(),
                Opd::D16(..) => "@(d:16,ERn)".into(),
                Opd::D24(..) => "@(d:24,ERn)".into(),
                Opd::PostInc(_) => "@ERn+".into(),
                Opd::PreDec(_) => "@-ERn".into(),
                Opd::A8(_) => "@aa:8".into(),
                Opd::A16(_) => "@aa:16".into(),
                Opd::A24(_) => "@aa:24".into(),
                Opd::MInd(_) => "@@aa:8".into(),
                Opd::Rel(_, b) => format!("d:{}", b),
                Opd::Ccr => "CCR".into(),
            }
        }
        let mut s = format!("{:?}", self.mn).to_uppercase();
        match self.mn {
            Mn::Bcc | Mn::Jmp | Mn::Bsr | Mn::Jsr | Mn::Rts | Mn::Rte | Mn::Trapa | Mn::Nop | Mn::Sleep | Mn::Eepmov | Mn::Undef => {}
            Mn::Adds | Mn::Subs => {}
            Mn::Bset | Mn::Bnot | Mn::Bclr | Mn::Btst | Mn::Bst | Mn::Bist | Mn::Bld | Mn::Bild | Mn::Band | Mn::Biand | Mn::Bor
            | Mn::Bior | Mn::Bxor | Mn::Bixor => {}
            _ => {
                s.push('.');
                s.push(self.sz.ch());
            }
        }
        match self.mn {
            Mn::Adds | Mn::Subs | Mn::Inc | Mn::Dec => {
                if !(self.mn == Mn::Inc || self.mn == Mn::Dec) || self.sz != Sz::B {
                    s.push_str(&format!(" #{}", self.k));
                }
            }
            Mn::Trapa => s.push_str(if self.k == 0 { " #0" } else { " #n" }),
            _ => {}
        }
        // for bit instructions the "src" is the bit number (imm or Rn), operand size is B
        let a = o(&self.src, if matches!(self.dst, Opd::Ccr) { self.sz } else { self.sz });
        let srcsz = match self.mn {
            Mn::Mulxu | Mn::Divxu => {
                if self.sz == Sz::B {
                    Sz::B
                } else {
                    Sz::W
                }
            }
            _ => self.sz,
        };
        let a = if matches!(self.src, Opd::R(_)) { o(&self.src, srcsz) } else { a };
        let dstsz = match self.mn {
            Mn::Mulxu | Mn::Divxu => {
                if self.sz == Sz::B {
                    Sz::W
                } else {
                    Sz::L
                }
            }
            _ => self.sz,
        };
        let b = o(&self.dst, dstsz);
        if !a.is_empty() {
            s.push(' ');
            s.push_str(&a);
        }
        if !b.is_empty() {
            s.push(if a.is_empty() { ' ' } else { ',' });
            s.push_str(&b);
        }
        s
    }
}

#[inline]
fn n(w: u16, i: u32) -> u8 {
    // nibble i (1 = most significant)
    ((w >> (4 * (4 - i))) & 0xf) as u8
}

/// Decode the instruction starting at `w[0]`; `w` must hold 5 words (pad with anything).
/// Never reads beyond the words the returned length covers for Impl/Unimpl results.
pub fn decode(w: &[u16; 5]) -> Insn {
    use Mn::*;
    use Opd::*;
    use Sz::*;
    let w0 = w[0];
    let ah = (w0 >> 8) as u8;
    let al = w0 as u8;
    let (n3, n4) = (n(w0, 3), n(w0, 4));
    let und = Insn::undef();
    match ah {
        0x00 => {
            if w0 == 0 {
                Insn::unimpl(Nop, 2)
            } else {
                und
            }
        }
        0x01 => match al {
            0x00 => dec_movl(w),
            0x40 => dec_stc(w),
            0x80 => Insn::unimpl(Sleep, 2),
            0xc0 => {
                let w1 = w[1];
                match (w1 >> 8) as u8 {
                    0x50 => Insn::unimpl(Mulxs, 4),
                    0x52 if n(w1, 4) < 8 => Insn::unimpl(Mulxs, 4),
                    _ => und,
                }
            }
            0xd0 => {
                let w1 = w[1];
                match (w1 >> 8) as u8 {
                    0x51 => Insn::unimpl(Divxs, 4),
                    0x53 if n(w1, 4) < 8 => Insn::unimpl(Divxs, 4),
                    _ => und,
                }
            }
            0xf0 => {
                let w1 = w[1];
                let (s, d) = (n(w1, 3), n(w1, 4));
                if s >= 8 || d >= 8 {
                    return und;
                }
                match (w1 >> 8) as u8 {
                    0x64 => Insn::new(Or, L, R(s), R(d), 4),
                    0x65 => Insn::new(Xor, L, R(s), R(d), 4),
                    0x66 => Insn::new(And, L, R(s), R(d), 4),
                    _ => und,
                }
            }
            _ => und,
        },
        0x02 => {
            if n3 == 0 {
                Insn::new(Stc, B, Ccr, R(n4), 2)
            } else {
                und
            }
        }
        0x03 => {
            if n3 == 0 {
                Insn::unimpl(Ldc, 2)
            } else {
                und
            }
        }
        0x04 => Insn::unimpl(Orc, 2),
        0x05 => Insn::unimpl(Xorc, 2),
        0x06 => Insn::unimpl(Andc, 2),
        0x07 => Insn::unimpl(Ldc, 2),
        0x08 => Insn::new(Add, B, R(n3), R(n4), 2),
        0x09 => Insn::new(Add, W, R(n3), R(n4), 2),
        0x0a => {
            if n3 == 0 {
                Insn::new(Inc, B, None, R(n4), 2).k(1)
            } else if n3 >= 8 && n4 < 8 {
                Insn::new(Add, L, R(n3 & 7), R(n4), 2)
            } else {
                und
            }
        }
        0x0b | 0x1b => {
            let (a, i) = if ah == 0x0b { (Adds, Inc) } else { (Subs, Dec) };
            match n3 {
                0x0 if n4 < 8 => Insn::new(a, L, None, R(n4), 2).k(1),
                0x8 if n4 < 8 => Insn::new(a, L, None, R(n4), 2).k(2),
                0x9 if n4 < 8 => Insn::new(a, L, None, R(n4), 2).k(4),
                0x5 => Insn::new(i, W, None, R(n4), 2).k(1),
                0xd => Insn::new(i, W, None, R(n4), 2).k(2),
                0x7 if n4 < 8 => Insn::new(i, L, None, R(n4), 2).k(1),
                0xf if n4 < 8 => Insn::new(i, L, None, R(n4), 2).k(2),
                _ => und,
            }
        }
        0x0c => Insn::new(Mov, B, R(n3), R(n4), 2),
        0x0d => Insn::new(Mov, W, R(n3), R(n4), 2),
        0x0e => Insn::new(Addx, B, R(n3), R(n4), 2),
        0x0f => {
            if n3 == 0 {
                Insn::unimpl(Daa, 2)
            } else if n3 >= 8 && n4 < 8 {
                Insn::new(Mov, L, R(n3 & 7), R(n4), 2)
            } else {
                und
            }
        }
        0x10..=0x13 => {
            let (lo, hi) = match ah {
                0x10 => (Shll, Shal),
                0x11 => (Shlr, Shar),
                0x12 => (Rotxl, Rotl),
                _ => (Rotxr, Rotr),
            };
            match n3 {
                0x0 => Insn::new(lo, B, None, R(n4), 2),
                0x1 => Insn::new(lo, W, None, R(n4), 2),
                0x3 if n4 < 8 => Insn::new(lo, L, None, R(n4), 2),
                0x8 => Insn::new(hi, B, None, R(n4), 2),
                0x9 => Insn::new(hi, W, None, R(n4), 2),
                0xb if n4 < 8 => Insn::new(hi, L, None, R(n4), 2),
                _ => und,
            }
        }
        0x14 => Insn::new(Or, B, R(n3), R(n4), 2),
        0x15 => Insn::new(Xor, B, R(n3), R(n4), 2),
        0x16 => Insn::new(And, B, R(n3), R(n4), 2),
        0x17 => match n3 {
            0x0 => Insn::new(Not, B, None, R(n4), 2),
            0x1 => Insn::new(Not, W, None, R(n4), 2),
            0x3 if n4 < 8 => Insn::new(Not, L, None, R(n4), 2),
            0x5 => Insn::new(Extu, W, None, R(n4), 2),
            0x7 if n4 < 8 => Insn::new(Extu, L, None, R(n4), 2),
            0x8 => Insn::new(Neg, B, None, R(n4), 2),
            0x9 => Insn::new(Neg, W, None, R(n4), 2),
            0xb if n4 < 8 => Insn::new(Neg, L, None, R(n4), 2),
            0xd => Insn::unimpl(Exts, 2),
            0xf if n4 < 8 => Insn::unimpl(Exts, 2),
            _ => und,
        },
        0x18 => Insn::new(Sub, B, R(n3), R(n4), 2),
        0x19 => Insn::new(Sub, W, R(n3), R(n4), 2),
        0x1a => {
            if n3 == 0 {
                Insn::new(Dec, B, None, R(n4), 2).k(1)
            } else if n3 >= 8 && n4 < 8 {
                Insn::new(Sub, L, R(n3 & 7), R(n4), 2)
            } else {
                und
            }
        }
        0x1c => Insn::new(Cmp, B, R(n3), R(n4), 2),
        0x1d => Insn::new(Cmp, W, R(n3), R(n4), 2),
        0x1e => Insn::unimpl(Subx, 2),
        0x1f => {
            if n3 == 0 {
                Insn::unimpl(Das, 2)
            } else if n3 >= 8 && n4 < 8 {
                Insn::new(Cmp, L, R(n3 & 7), R(n4), 2)
            } else {
                und
            }
        }
        0x20..=0x2f => Insn::new(Mov, B, A8(al), R(ah & 0xf), 2),
        0x30..=0x3f => Insn::new(Mov, B, R(ah & 0xf), A8(al), 2),
        0x40..=0x4f => Insn::new(Bcc, B, Rel(al as u16, 8), None, 2).k(ah & 0xf),
        0x50 => Insn::new(Mulxu, B, R(n3), R(n4), 2),
        0x51 => Insn::new(Divxu, B, R(n3), R(n4), 2),
        0x52 if n4 < 8 => Insn::new(Mulxu, W, R(n3), R(n4), 2),
        0x53 if n4 < 8 => Insn::new(Divxu, W, R(n3), R(n4), 2),
        0x54 if w0 == 0x5470 => Insn::new(Rts, L, None, None, 2),
        0x55 => Insn::new(Bsr, L, Rel(al as u16, 8), None, 2),
        0x56 if w0 == 0x5670 => Insn::new(Rte, L, None, None, 2),
        0x57 if n4 == 0 && n3 < 4 => Insn::new(Trapa, L, None, None, 2).k(n3),
        0x58 if n4 == 0 => Insn::new(Bcc, W, Rel(w[1], 16), None, 4).k(n3),
        0x59 if n4 == 0 && n3 < 8 => Insn::new(Jmp, L, Ind(n3), None, 2),
        0x5a => Insn::new(Jmp, L, A24(((al as u32) << 16) | w[1] as u32), None, 4),
        0x5b => Insn::new(Jmp, L, MInd(al), None, 2),
        0x5c if al == 0 => Insn::new(Bsr, L, Rel(w[1], 16), None, 4),
        0x5d if n4 == 0 && n3 < 8 => Insn::new(Jsr, L, Ind(n3), None, 2),
        0x5e => Insn::new(Jsr, L, A24(((al as u32) << 16) | w[1] as u32), None, 4),
        0x5f => Insn::new(Jsr, L, MInd(al), None, 2),
        0x60 => Insn::new(Bset, B, R(n3), R(n4), 2),
        0x61 => Insn::new(Bnot, B, R(n3), R(n4), 2),
        0x62 => Insn::new(Bclr, B, R(n3), R(n4), 2),
        0x63 => Insn::new(Btst, B, R(n3), R(n4), 2),
        0x64 => Insn::new(Or, W, R(n3), R(n4), 2),
        0x65 => Insn::new(Xor, W, R(n3), R(n4), 2),
        0x66 => Insn::new(And, W, R(n3), R(n4), 2),
        0x67 => Insn::new(if n3 < 8 { Bst } else { Bist }, B, Imm((n3 & 7) as u32), R(n4), 2),
        0x68 | 0x69 => {
            let sz = if ah == 0x68 { B } else { W };
            if n3 < 8 {
                Insn::new(Mov, sz, Ind(n3), R(n4), 2)
            } else {
                Insn::new(Mov, sz, R(n4), Ind(n3 & 7), 2)
            }
        }
        0x6a | 0x6b => {
            let sz = if ah == 0x6a { B } else { W };
            let a24 = ((w[1] as u32) << 16) | w[2] as u32;
            match n3 {
                0x0 => Insn::new(Mov, sz, A16(w[1]), R(n4), 4),
                0x2 if a24 >> 24 == 0 => Insn::new(Mov, sz, A24(a24), R(n4), 6),
                0x8 => Insn::new(Mov, sz, R(n4), A16(w[1]), 4),
                0xa if a24 >> 24 == 0 => Insn::new(Mov, sz, R(n4), A24(a24), 6),
                0x4 if ah == 0x6a => Insn::unimpl(Movfpe, 4),
                0xc if ah == 0x6a => Insn::unimpl(Movtpe, 4),
                _ => und,
            }
        }
        0x6c | 0x6d => {
            let sz = if ah == 0x6c { B } else { W };
            if n3 < 8 {
                Insn::new(Mov, sz, PostInc(n3), R(n4), 2)
            } else {
                Insn::new(Mov, sz, R(n4), PreDec(n3 & 7), 2)
            }
        }
        0x6e | 0x6f => {
            let sz = if ah == 0x6e { B } else { W };
            if n3 < 8 {
                Insn::new(Mov, sz, D16(n3, w[1]), R(n4), 4)
            } else {
                Insn::new(Mov, sz, R(n4), D16(n3 & 7, w[1]), 4)
            }
        }
        0x70..=0x73 if n3 < 8 => {
            let m = [Bset, Bnot, Bclr, Btst][(ah - 0x70) as usize];
            Insn::new(m, B, Imm(n3 as u32), R(n4), 2)
        }
        0x74..=0x77 => {
            let m = match (ah, n3 < 8) {
                (0x74, true) => Bor,
                (0x74, false) => Bior,
                (0x75, true) => Bxor,
                (0x75, false) => Bixor,
                (0x76, true) => Band,
                (0x76, false) => Biand,
                (0x77, true) => Bld,
                _ => Bild,
            };
            Insn::new(m, B, Imm((n3 & 7) as u32), R(n4), 2)
        }
        0x78 => {
            // MOV.B / MOV.W @(d:24,ERn)
            if n4 != 0 || n3 >= 8 {
                return und;
            }
            let w1 = w[1];
            let d24 = ((w[2] as u32) << 16) | w[3] as u32;
            if d24 >> 24 != 0 {
                return und;
            }
            let sz = match (w1 >> 8) as u8 {
                0x6a => B,
                0x6b => W,
                _ => return und,
            };
            match n(w1, 3) {
                0x2 => Insn::new(Mov, sz, D24(n3, d24), R(n(w1, 4)), 8),
                0xa => Insn::new(Mov, sz, R(n(w1, 4)), D24(n3, d24), 8),
                _ => und,
            }
        }
        0x79 | 0x7a => {
            let (sz, imm, len) = if ah == 0x79 {
                (W, w[1] as u32, 4)
            } else {
                (L, ((w[1] as u32) << 16) | w[2] as u32, 6)
            };
            if sz == L && n4 >= 8 {
                return und;
            }
            let m = match n3 {
                0 => Mov,
                1 => Add,
                2 => Cmp,
                3 => Sub,
                4 => Or,
                5 => Xor,
                6 => And,
                _ => return und,
            };
            Insn::new(m, sz, Imm(imm), R(n4), len)
        }
        0x7b => {
            if (w0 == 0x7b5c || w0 == 0x7bd4) && w[1] == 0x598f {
                Insn::unimpl(Eepmov, 4)
            } else {
                und
            }
        }
        0x7c | 0x7e => {
            // bit test / bit load family on memory (read only)
            let ea = if ah == 0x7c {
                if n4 != 0 || n3 >= 8 {
                    return und;
                }
                Ind(n3)
            } else {
                A8(al)
            };
            let w1 = w[1];
            if n(w1, 4) != 0 {
                return und;
            }
            let b = n(w1, 3);
            match (w1 >> 8) as u8 {
                0x63 => Insn::new(Btst, B, R(b), ea, 4),
                0x73 if b < 8 => Insn::new(Btst, B, Imm(b as u32), ea, 4),
                0x74 => Insn::new(if b < 8 { Bor } else { Bior }, B, Imm((b & 7) as u32), ea, 4),
                0x75 => Insn::new(if b < 8 { Bxor } else { Bixor }, B, Imm((b & 7) as u32), ea, 4),
                0x76 => Insn::new(if b < 8 { Band } else { Biand }, B, Imm((b & 7) as u32), ea, 4),
                0x77 => Insn::new(if b < 8 { Bld } else { Bild }, B, Imm((b & 7) as u32), ea, 4),
                _ => und,
            }
        }
        0x7d | 0x7f => {
            let ea = if ah == 0x7d {
                if n4 != 0 || n3 >= 8 {
                    return und;
                }
                Ind(n3)
            } else {
                A8(al)
            };
            let w1 = w[1];
            if n(w1, 4) != 0 {
                return und;
            }
            let b = n(w1, 3);
            match (w1 >> 8) as u8 {
                0x60 => Insn::new(Bset, B, R(b), ea, 4),
                0x61 => Insn::new(Bnot, B, R(b), ea, 4),
                0x62 => Insn::new(Bclr, B, R(b), ea, 4),
                0x70 if b < 8 => Insn::new(Bset, B, Imm(b as u32), ea, 4),
                0x71 if b < 8 => Insn::new(Bnot, B, Imm(b as u32), ea, 4),
                0x72 if b < 8 => Insn::new(Bclr, B, Imm(b as u32), ea, 4),
                0x67 => Insn::new(if b < 8 { Bst } else { Bist }, B, Imm((b & 7) as u32), ea, 4),
                _ => und,
            }
        }
        0x80..=0x8f => Insn::new(Add, B, Imm(al as u32), R(ah & 0xf), 2),
        0x90..=0x9f => Insn::new(Addx, B, Imm(al as u32), R(ah & 0xf), 2),
        0xa0..=0xaf => Insn::new(Cmp, B, Imm(al as u32), R(ah & 0xf), 2),
        0xb0..=0xbf => Insn::unimpl(Subx, 2),
        0xc0..=0xcf => Insn::new(Or, B, Imm(al as u32), R(ah & 0xf), 2),
        0xd0..=0xdf => Insn::new(Xor, B, Imm(al as u32), R(ah & 0xf), 2),
        0xe0..=0xef => Insn::new(And, B, Imm(al as u32), R(ah & 0xf), 2),
        0xf0..=0xff => Insn::new(Mov, B, Imm(al as u32), R(ah & 0xf), 2),
        _ => und,
    }
}

fn dec_movl(w: &[u16; 5]) -> Insn {
    use Mn::*;
    use Opd::*;
    use Sz::*;
    let und = Insn::undef();
    let w1 = w[1];
    let (a, b) = (n(w1, 3), n(w1, 4));
    match (w1 >> 8) as u8 {
        0x69 => {
            if b >= 8 {
                und
            } else if a < 8 {
                Insn::new(Mov, L, Ind(a), R(b), 4)
            } else {
                Insn::new(Mov, L, R(b), Ind(a & 7), 4)
            }
        }
        0x6f => {
            if b >= 8 {
                und
            } else if a < 8 {
                Insn::new(Mov, L, D16(a, w[2]), R(b), 6)
            } else {
                Insn::new(Mov, L, R(b), D16(a & 7, w[2]), 6)
            }
        }
        0x6d => {
            if b >= 8 {
                und
            } else if a < 8 {
                Insn::new(Mov, L, PostInc(a), R(b), 4)
            } else {
                Insn::new(Mov, L, R(b), PreDec(a & 7), 4)
            }
        }
        0x6b => {
            if b >= 8 {
                return und;
            }
            let a24 = ((w[2] as u32) << 16) | w[3] as u32;
            match a {
                0x0 => Insn::new(Mov, L, A16(w[2]), R(b), 6),
                0x2 if a24 >> 24 == 0 => Insn::new(Mov, L, A24(a24), R(b), 8),
                0x8 => Insn::new(Mov, L, R(b), A16(w[2]), 6),
                0xa if a24 >> 24 == 0 => Insn::new(Mov, L, R(b), A24(a24), 8),
                _ => und,
            }
        }
        0x78 => {
            if b != 0 {
                return und;
            }
            let w2 = w[2];
            if (w2 >> 8) as u8 != 0x6b {
                return und;
            }
            let r = n(w2, 4);
            if r >= 8 {
                return und;
            }
            let d24 = ((w[3] as u32) << 16) | w[4] as u32;
            if d24 >> 24 != 0 {
                return und;
            }
            match (a < 8, n(w2, 3)) {
                (true, 0x2) => Insn::new(Mov, L, D24(a, d24), R(r), 10),
                (false, 0xa) => Insn::new(Mov, L, R(r), D24(a & 7, d24), 10),
                _ => und,
            }
        }
        _ => und,
    }
}

fn dec_stc(w: &[u16; 5]) -> Insn {
    use Mn::*;
    use Opd::*;
    use Sz::*;
    let und = Insn::undef();
    let w1 = w[1];
    let (a, b) = (n(w1, 3), n(w1, 4));
    match (w1 >> 8) as u8 {
        0x69 if b == 0 => {
            if a >= 8 {
                Insn::new(Stc, W, Ccr, Ind(a & 7), 4)
            } else {
                Insn::unimpl(Ldc, 4)
            }
        }
        0x6f if b == 0 => {
            if a >= 8 {
                Insn::new(Stc, W, Ccr, D16(a & 7, w[2]), 6)
            } else {
                Insn::unimpl(Ldc, 6)
            }
        }
        0x6d if b == 0 => {
            if a >= 8 {
                Insn::new(Stc, W, Ccr, PreDec(a & 7), 4)
            } else {
                Insn::unimpl(Ldc, 4)
            }
        }
        0x6b => {
            let a24 = ((w[2] as u32) << 16) | w[3] as u32;
            match w1 as u8 {
                0x80 => Insn::new(Stc, W, Ccr, A16(w[2]), 6),
                0xa0 if a24 >> 24 == 0 => Insn::new(Stc, W, Ccr, A24(a24), 8),
                0x00 => Insn::unimpl(Ldc, 6),
                0x20 if a24 >> 24 == 0 => Insn::unimpl(Ldc, 8),
                _ => und,
            }
        }
        0x78 if b == 0 && a < 8 => {
            let w2 = w[2];
            let d24 = ((w[3] as u32) << 16) | w[4] as u32;
            if d24 >> 24 != 0 {
                return und;
            }
            match w2 {
                0x6ba0 => Insn::new(Stc, W, Ccr, D24(a, d24), 10),
                0x6b20 => Insn::unimpl(Ldc, 10),
                _ => und,
            }
        }
        _ => und,
    }
}
