pub mod cost;
pub mod decode;
pub mod exec;
pub mod mem;
