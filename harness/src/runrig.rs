//! Running the real `Cpu::run()` in-process: channel-backed socket (hook H3), per-iteration
//! callback (hook H4), and the twin that predicts what the run loop must do.

use crate::cpu::verif_hooks;
use crate::cpu::Cpu;
use crate::socket::Socket;
use crate::util::take_panic;
use std::cell::RefCell;
use std::panic::{catch_unwind, AssertUnwindSafe};
use std::rc::Rc;
use std::sync::mpsc::{channel, Receiver, Sender};

pub struct RunRig {
    pub cpu: Cpu,
    /// lines "arriving from the socket"
    pub to_emu: Sender<String>,
    /// every message the emulator emits (Cpu::send_message and Bus::send_message), in order
    pub from_emu: Rc<Receiver<String>>,
}

impl RunRig {
    pub fn new() -> RunRig {
        let mut cpu = Cpu::new();
        let (out_tx, out_rx) = channel::<String>();
        let (in_tx, in_rx) = channel::<String>();
        cpu.verif_attach_socket(Socket::verif_from_channels(out_tx, in_rx));
        RunRig { cpu, to_emu: in_tx, from_emu: Rc::new(out_rx) }
    }
    pub fn drain(&self) -> Vec<String> {
        self.from_emu.try_iter().collect()
    }
}

#[derive(Debug, Clone, PartialEq)]
pub enum RunEnd {
    Ok,
    Err(String),
    Panic(String),
}

/// Run `cpu.run()` with `tick` installed as the per-iteration callback.
pub fn run_with_hook(cpu: &mut Cpu, tick: Box<dyn FnMut(&mut Cpu)>) -> RunEnd {
    verif_hooks::set_loop_tick(Some(tick));
    let r = catch_unwind(AssertUnwindSafe(|| cpu.run()));
    verif_hooks::set_loop_tick(None);
    match r {
        Ok(Ok(())) => RunEnd::Ok,
        Ok(Err(e)) => RunEnd::Err(format!("{:#}", e)),
        Err(_) => {
            let p = take_panic().unwrap_or_default();
            RunEnd::Panic(format!("{}:{}: {}", p.file, p.line, p.msg))
        }
    }
}

pub fn digest(bytes: &[u8]) -> u64 {
    let mut h: u64 = 0xcbf29ce484222325;
    for chunk in bytes.chunks(8) {
        let mut x = 0u64;
        for (i, b) in chunk.iter().enumerate() {
            x |= (*b as u64) << (8 * i);
        }
        h = (h ^ x).wrapping_mul(0x100000001b3);
        h ^= h >> 29;
    }
    h
}

pub fn mem_digest(cpu: &Cpu) -> u64 {
    let mut h = digest(&cpu.bus.dram);
    h = h.wrapping_mul(31) ^ digest(&cpu.bus.memory[..]);
    h = h.wrapping_mul(31) ^ digest(&cpu.bus.exception_handling_vector);
    h = h.wrapping_mul(31) ^ digest(&cpu.bus.io_registrs1);
    h = h.wrapping_mul(31) ^ digest(&cpu.bus.io_registrs2);
    h
}

/// State shared between a check and its loop callback.
pub type Shared<T> = Rc<RefCell<T>>;
pub fn shared<T>(t: T) -> Shared<T> {
    Rc::new(RefCell::new(t))
}

/// Build a loadable ELF around one code/data blob (vaddr 0), see elfcheck::write_elf.
pub fn simple_elf(image: &[u8], bss: u32, exit_vaddr: u32, stack: u32, seed: u64) -> Vec<u8> {
    use crate::checks::elfcheck::{write_elf, Layout, Phdr, Seg};
    let mut rng = crate::util::Rng::new(seed);
    let mut l = Layout {
        segs: vec![Seg { vaddr: 0, data: image.to_vec(), memsz: image.len() as u32 + bss, offset: 0 }],
        phdrs: vec![Phdr { load: Some(0), raw: [0; 8] }],
        got_addr: 0,
        got_entries: vec![],
        stack_size: stack,
        symbols: vec![("_start".to_string(), 0), ("___exit".to_string(), exit_vaddr), ("_end".to_string(), image.len() as u32)],
        exit_index: 1,
        args: String::new(),
        section_order: (0..11).collect(),
        shape: [0; 5],
    };
    write_elf(&mut l, &mut rng)
}

pub fn scratch_path(tag: &str) -> String {
    let dir = if std::path::Path::new("/dev/shm").is_dir() { "/dev/shm".to_string() } else { "/verif/target/tmp".to_string() };
    let _ = std::fs::create_dir_all(&dir);
    format!("{}/h8mon-{}-{}", dir, std::process::id(), tag)
}

/// the repository's own release binary, built by the driver next to the harness output
pub fn real_binary() -> String {
    std::env::var("VERIF_REALBIN").unwrap_or_else(|_| "/verif/target/bin/release/koge29_h8-3069f_emulator".to_string())
}
