// Generates the list of the emulator's top-level modules from the tree under test, so that a module
// added to (or removed from) the repository does not break the monitors' build.
use std::{env, fs, path::PathBuf};

fn main() {
    let manifest = PathBuf::from(env::var("CARGO_MANIFEST_DIR").unwrap());
    let src = manifest.join("repo_src");
    let mut mods: Vec<String> = vec![];
    if let Ok(rd) = fs::read_dir(&src) {
        for e in rd.flatten() {
            let p = e.path();
            let name = p.file_stem().and_then(|s| s.to_str()).unwrap_or("").to_string();
            if name.is_empty() || name == "main" || name == "lib" {
                continue;
            }
            let is_mod = if p.is_dir() { p.join("mod.rs").exists() && !src.join(format!("{}.rs", name)).exists() } else { p.extension().map(|x| x == "rs").unwrap_or(false) };
            if is_mod && !mods.contains(&name) {
                mods.push(name);
            }
        }
    }
    mods.sort();
    let decls: String = mods.iter().map(|m| format!("    pub mod {};\n", m)).collect();
    let uses = mods.join(", ");
    let text = format!("#[path = {:?}]\nmod repo {{\n{}}}\n#[allow(unused_imports)]\npub use repo::{{{}}};\n", src.to_str().unwrap(), decls, uses);
    let out = PathBuf::from(env::var("OUT_DIR").unwrap()).join("repo_mods.rs");
    fs::write(out, text).unwrap();
    println!("cargo:rerun-if-changed={}", src.display());
    println!("cargo:rerun-if-changed=build.rs");
    println!("cargo:rerun-if-env-changed=VERIF_REPO");
}
