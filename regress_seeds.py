#!/usr/bin/env python3
"""Re-run every stored seeded change against the check(s) recorded as detecting it and report the ones
that are no longer detected.  usage: regress_seeds.py [-j N] [pattern]   (uses mutant.sh; scratch only)"""
import json, glob, os, subprocess, sys, concurrent.futures as cf
args=sys.argv[1:]
jobs=3
if "-j" in args:
    i=args.index("-j"); jobs=int(args[i+1]); del args[i:i+2]
pat=args[0] if args else ""
seeds=sorted(d for d in glob.glob("/verif/seeded/C*-*")+glob.glob("/verif/seeded/regress/[RS]*") if pat in d)
def run(d):
    meta=json.load(open(os.path.join(d,"meta.json")))
    det=meta.get("detected_by",{})
    checks=det.get("check","").replace(","," ").split()
    checks=[c for c in checks if c.startswith("C") and len(c)==3]
    tier=det.get("tier","quick")
    env=dict(os.environ, VERIF_TIER="thorough" if tier=="thorough" else "quick")
    r=subprocess.run(["/verif/mutant.sh", os.path.join(d,"patch.diff")]+checks, capture_output=True, text=True, env=env, cwd="/tmp")
    out=r.stdout+r.stderr
    verdicts=[l.strip() for l in out.splitlines() if l.strip().startswith("verdict:")]
    new=[l.strip()[:160] for l in out.splitlines() if l.strip().startswith("NEW")]
    caught=any("violated" in v for v in verdicts)
    return d, checks, tier, caught, verdicts, new[:2]
with cf.ThreadPoolExecutor(jobs) as ex:
    for d,checks,tier,caught,verdicts,new in ex.map(run, seeds):
        print(("CAUGHT " if caught else "MISSED ")+os.path.basename(d), checks, tier, verdicts, new[:1], flush=True)
