#!/usr/bin/env python3
"""Regenerates MANIFEST.json from the table below (kept in one place so that it stays valid)."""
import json, subprocess
ids=[json.loads(l)['id'] for l in open('/verif/properties.jsonl')]
commits=subprocess.run("git -C /repo log --format=%h --grep='^verif hooks' ",shell=True,capture_output=True,text=True).stdout.split()
T={
"C01":("lock-step reference-model monitor on single MOV steps (real Cpu vs independent H8/300H model), full register/CCR/PC compare, operand windows every step and five-region memory compare every 512 steps (after letting peripheral time pass); contiguous program walks in session mode; source-dictionary values/addresses; odd PC, plain-I/O-register background, log/print settings as configuration dimensions","3 C01"),
"C02":("lock-step reference-model monitor; 8-bit operand spaces exhaustive (x carry-in), 16-bit stratified/exhaustive-by-one-operand, 32-bit carry-chain boundaries + random; all register fields, all 256 CCR; source-dictionary constants as operands and as results; program walks; configuration dimensions as C01","3 C02"),
"C03":("lock-step reference-model monitor; 8/16-bit operand spaces exhaustive x carry-in, 32-bit boundary/walking-bit/random; source-dictionary constants as operands and as results; program walks; configuration dimensions as C01","3 C03"),
"C04":("lock-step reference-model monitor; 256 operand values x 8 bits x C exhaustive per form, register/@ERn/@aa:8 operands, full memory compare","3 C04"),
"C05":("lock-step monitor of Bcc/JMP/BSR/JSR/RTS steps (truth table exhaustive) + session monitor with a shadow call stack over generated call trees","3 C05"),
"C06":("lock-step monitor of TRAPA/RTE steps and of interrupt acceptance through the interrupt controller + random entry/return walks with a shadow frame stack and vector-table maintenance (set_handler call, plain stores); timer flags set at acceptance; plain-I/O-register background","3 C06"),
"C07":("enumeration of all first words / all second words of multi-word prefixes against an independent encoding table; judged: Ok/Err, consumed length, footprint containment","3 C07"),
"C08":("lock-step monitor with address-tagged memory (two passes); wrap-heavy base/displacement pools; unmapped EAs must fail","3 C08"),
"C09":("exhaustive 2^24 sweep of Bus::read/Bus::write against a byte model (classification, tagged write, five-array compare, read-back) + session histories of MOV accesses at region boundaries","3 C09"),
"C11":("generated ELF32-BE files loaded by the real elf::load; whole-DRAM and canary comparison against an independent layout model; unusual valid structure (trailing/interleaved non-load headers, nested PT_LOAD, string-table tail sharing, odd symbol names)","3 C11/C12"),
"C12":("generated ELF32-BE files + argument strings loaded by the real elf::load; registers, argv block followed through DRAM, exit address checked against the layout model","3 C11/C12"),
"C16":("history checker: bounded-exhaustive sequences of {DDR write, DR write, pin change} through the bus API vs latch/direction/pin model; ioport message log checked after every operation","3 C16"),
"C17":("history checker with phase inference: update_modules slices + register writes vs tick-by-tick timer model; metamorphic partition comparison; long horizons (> 2^32, thorough 2^33 elapsed states on one clock selection); unrelated stores in between","3 C17"),
"C19":("exhaustive per-area bus-controller setting space on Cpu::calc_state_with_addr vs cost function written from the property text","3 C19"),
"C20":("lock-step monitor comparing the state count returned by each step with cycle-table x cost-function under 8 bus settings and all placements; program walks; metamorphic history-independence check for the MES call (no reference number)","3 C20"),
"C10":("offline checker over the request/entry event log of generated guest programs with injected interrupt schedules (harness stepping loop and the real run() loop), transparency against a request-free run of the same real code","3 C10"),
"C13":("run-loop tracer (hook at every iteration) against a twin driven by the same real step engine: PC trace, exit/error point, state accounting, sync messages, timer; independent time-base oracle over all stamps; state counts preset beyond 2^31/2^32/2^33 (hook); external pin levels; faults directly before the exit address; determinism across repeated runs under host load and the real release binary incl. -w / -i command lines","3 C13"),
"C14":("monitored TRAPA #0 steps (full state + memory compare, message log) with the console captured from a child process and compared byte for byte; set_handler judged through a later injected interrupt","3 C14"),
"C15":("panic recorder (catch_unwind + panic hook, child processes for aborts) over all first words x adversarial registers x placements at region ends, fuzzed programs through run(), fuzzed control lines; long texts through the system call; thorough: 2^32 instructions on one machine (ovf), Miri and valgrind passes; both build profiles","3 C15"),
"C18":("in-process run() with a channel-backed socket and hook-delivered line batches vs sequential control-channel model over all partitions; end-to-end TCP transcript check against the release binary with hostile chunking, over-long lines, field-overflow numbers and idle periods (with control run)","3 C18"),
}
import os,re
src=open('/verif/check').read()
built=set(re.findall(r'^    "(C\d\d)": dict',src,re.M))
impl=set()
modrs=open('/verif/harness/src/checks/mod.rs').read()
for i in ids:
    if '"%s" =>'%i in modrs: impl.add(i)
checks=[];na=[]
for i in ids:
    if i in impl:
        tech,ref=T[i]
        checks.append({"property_id":i,"quick_cmd":"./check %s quick"%i,"thorough_cmd":"./check %s thorough"%i,"evidence_file":"/verif/evidence/%s.json"%i,
          "replay_cmd_template":"./check %s --replay {path}"%i,"engine":"h8mon",
          "level_claimed":{"category":"exploration","text":"Runtime monitoring: the real emulator code is executed on generated/enumerated workloads and every execution is judged by an independent oracle. Holds on what was observed (counts, cells and exhaustive sub-spaces are in the evidence file); nothing is claimed for inputs not executed.","design_ref":"DESIGN.md section "+ref},
          "level_note":"Trusted base: the reference model / oracle in /verif/harness/src (written from the H8/300H programming manual and the property text), the guarded hooks (expose private state only), rustc. Both build profiles (release, release+overflow-checks+debug-assertions) where the check executes instructions.",
          "technique":tech})
    else:
        na.append({"property_id":i,"reason":"check designed (DESIGN.md section 3) but not built yet in this session; not claimed"})
m={"version":1,"setup_cmd":"./setup.sh",
"hooks":{"guard":"cfg(koge29_verif)  (rustc --cfg koge29_verif)","enable":"/verif/harness/.cargo/config.toml sets rustflags --cfg koge29_verif; the harness crate h8mon includes /repo/src by #[path], so cargo rebuilds it from the current working tree","baseline_off_cmd":"cd /repo && cargo test --workspace --no-fail-fast --offline","source_commits":commits,"add_only":True},
"engines":[{"name":"h8mon","path":"/verif/harness","serves_properties":sorted(impl),"kind_free_text":"Rust monitor harness linked against the real emulator sources: reference model (decode/exec/cycles/cost/bus map), lock-step and session monitors, history checkers, generators; driven by /verif/check (Python: build, shards, merge, known findings, evidence)"}],
"checks":checks,
"notes":"Verdicts are three-valued: exit 0 held, exit 1 + VIOLATION line, exit 2 inconclusive (build failure, watchdog, coverage floor). Known findings: /verif/KNOWN_FINDINGS.txt. VERIF_SEED selects all random choices.",
"not_applicable":na}
json.dump(m,open('/verif/MANIFEST.json','w'),indent=1)
print(len(checks),"checks;",len(na),"not claimed")
