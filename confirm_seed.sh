#!/bin/sh
# confirm a seeded change delivered in /tmp/wt/<name>-out: patch applies, suite still passes with it,
# demonstration fails with it and passes without it.  usage: confirm_seed.sh <name> <demo test filter>
name=$1; filter=$2
out=/tmp/wt/$name-out
wt=/tmp/cs$$-repo
tgt=/tmp/wt/$name-target
git -C /repo worktree add -q --detach $wt HEAD || exit 1
cd $wt
echo "--- suite with the change only"
git apply $out/patch.diff || { echo "PATCH DOES NOT APPLY"; }
CARGO_TARGET_DIR=$tgt cargo test --offline 2>&1 | grep -E "^test result|error(\[|:)" | head -3
echo "--- demonstration with the change"
git apply $out/demo.diff || echo "DEMO DOES NOT APPLY"
CARGO_TARGET_DIR=$tgt cargo test --offline $filter 2>&1 | grep -E "^test result|panicked|error(\[|:)" | head -4
echo "--- demonstration without the change"
git apply -R $out/patch.diff
CARGO_TARGET_DIR=$tgt cargo test --offline $filter 2>&1 | grep -E "^test result|panicked|error(\[|:)" | head -4
cd /; git -C /repo worktree remove --force $wt
