#!/bin/sh
# Build the monitor harness (both profiles) and the real release binary, offline.
set -e
cd /verif
exec python3 ./check --setup
