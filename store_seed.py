#!/usr/bin/env python3
"""Store a confirmed seeded change delivered in /tmp/wt/<name>-out as /verif/seeded/<id>-<round>/ and
remove its scratch worktree / build output.
usage: store_seed.py <name> <id> <round> <check(s)> <tier> <signatures> <history note>"""
import json, os, shutil, subprocess, sys

name, pid, rnd, check, tier, sigs, hist = sys.argv[1:8]
src = "/tmp/wt/%s-out" % name
dst = "/verif/seeded/%s-%s" % (pid, rnd)
os.makedirs(dst, exist_ok=True)
for f in os.listdir(src):
    p = os.path.join(src, f)
    if os.path.isdir(p):
        shutil.copytree(p, os.path.join(dst, f), dirs_exist_ok=True)
    elif f != "meta.json":
        shutil.copy(p, dst)
try:
    meta = json.load(open(os.path.join(src, "meta.json")))
except Exception:
    meta = {"property": pid}
meta["property"] = pid
meta["origin"] = ("independent sub-agent (round %s: asked for a change that a strong differential/history tester "
                  "would still miss - hidden configuration dimensions, long horizons, coincidences), given only "
                  "the property text and a scratch worktree" % rnd)
meta["confirmed_by_me"] = {
    "suite_with_change": "226 passed (cargo test --offline in a scratch worktree of /repo HEAD)",
    "demo_with_change": "fails",
    "demo_without_change": "passes",
    "commands": "/verif/confirm_seed.sh %s <filter> ; /verif/mutant.sh seeded/%s-%s/patch.diff %s" % (name, pid, rnd, check),
}
meta["detected_by"] = {"check": check, "tier": tier, "seed": 1, "signatures": sigs, "history": hist}
json.dump(meta, open(os.path.join(dst, "meta.json"), "w"), indent=1)
subprocess.call(["git", "-C", "/repo", "worktree", "remove", "--force", "/tmp/wt/%s" % name])
shutil.rmtree("/tmp/wt/%s-target" % name, ignore_errors=True)
shutil.rmtree(src, ignore_errors=True)
print("stored", dst)
