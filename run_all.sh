#!/bin/sh
# run every check of a tier in sequence; prints one summary block per check (used for sweeps)
tier=${1:-quick}
cd "$(dirname "$0")"
python3 ./check --setup >/dev/null 2>&1
rc=0
for c in C01 C02 C03 C04 C05 C06 C07 C08 C09 C10 C11 C12 C13 C14 C15 C16 C17 C18 C19 C20; do
  ./check $c $tier 2>&1 | cut -c1-400
  s=$?
  echo "== $c exit $s"
done
