import json,sys
r=json.load(open(sys.argv[1]))
print('evals',r['evaluations'],'cells',len(r['cells']),r['cell_kinds'])
print({k:v for k,v in r['counters'].items() if not k.startswith('ok:')})
oks={k:v for k,v in r['counters'].items() if k.startswith('ok:')}
print('forms ok:',len(oks),'min',min(oks.values()) if oks else None)
for f in r['findings']: print(f['count'],f['sig'],'\n    ',f['detail'][:260])
print('exh',len(r['exhaustive']),'samples',r['samples'][:2])
