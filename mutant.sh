#!/bin/sh
# Evaluate the monitors against a seeded change without touching /repo or /verif's build output:
#   ./mutant.sh <patch.diff> <check id>...        (quick tier; VERIF_TIER / VERIF_SEED are honoured)
# A scratch worktree of /repo (HEAD) gets the patch, a scratch copy of /verif (no target/, no .git)
# is pointed at it through VERIF_REPO, the checks run there, everything is removed afterwards.
set -e
patch=$(readlink -f "$1"); shift
id=mt$$
wt=/tmp/$id-repo
vf=/tmp/$id-verif
git -C /repo worktree add -q --detach "$wt" HEAD
( cd "$wt" && git apply "$patch" )
mkdir -p "$vf"
rsync -a --exclude target --exclude .git --exclude replays --exclude evidence --exclude harness/repo_src /verif/ "$vf"/
# reuse the dependency build of the main target dir to save time (copied, not shared)
# (clean build in the scratch copy: a copied target dir can look fresh to cargo)
rc=0
for c in "$@"; do
  ( cd "$vf" && VERIF_REPO="$wt" ./check "$c" ${VERIF_TIER:-quick} 2>&1 | grep -v "^  new finding" | cut -c1-300 ) || true
  ( cd "$vf" && python3 - "$c" <<'PY'
import json,sys
e=json.load(open('evidence/%s.json'%sys.argv[1]))
for f in e['coverage']['new_findings'][:6]:
    print('   NEW',f['signature'],'x%d'%f['occurrences'],'::',f['witness'][:200])
print('   verdict:',e['coverage']['verdict'])
PY
  )
done
git -C /repo worktree remove --force "$wt"
rm -rf "$vf"
